"""C14 — pulse evolution is the time-ordered propagator of the stated Hamiltonian.

Correspondence of lean/QipVerif/Model/Grid.lean with Processor.get_full_tlist,
pulse._fill_coeff (step branch), Processor.get_full_coeffs, the slice list of
run_analytically and the header/label logic of save_coeff/read_coeff (exact), and the
numerical part (partial, trusted runtime numerics): run_analytically, get_full_coeffs,
run_state (noise-free) and a save/reload compared with an independent ordered product of
scipy.linalg.expm over the MODEL's merged grid.

Exactness: resampling only copies values, so grids and coefficients are compared exactly
(Fraction(float)).  The float tolerance `tol = 1e-10` is modelled as the rational 1/10^10; a
case whose model output changes for tol*(1 +- 2^-20) is skipped (tag tight-skipped).  The
tolerance stream places points at distances 2^-40 (< tol) and 2^-30 (> tol) from others, all
multiples of 2^-40 below 2^6, where the code's float subtractions are exact.
"""
import os, time, tempfile, shutil, bisect, json
from fractions import Fraction as F
import numpy as np

import ast
from vlib.core import PropertyCheck, TranslatorError
from vlib import paths

# variants of the working tree, read from the source with `ast` (regenerate):
#   zl    = 1: _fill_coeff zeroes the last element of a full-length step coefficient (fixes/C14-2.patch)
#   ndmin = 2: read_coeff calls np.loadtxt(..., ndmin=2)                              (fixes/C14-3.patch)
#   hold  = 1: the cubic branch of _fill_coeff keeps the boundary sample outside the channel's grid (fixes/C14-4.patch)
#   hdr   = 1: save_coeff always writes the header line (comment prefix inside the header, fixes/C14-5.patch);
#           0: np.savetxt(header=header) as found - no line at all for an empty header
#   dimsonly = 1: Model.__init__ takes the number of subsystems from len(dims) when num_qubits is not given
#                 (fixes/C14-6.patch); 0: `... else N` as found - Processor(dims=[...]) raises NameError
#   cu    = 1: the step branch of _fill_coeff advances its index with the bounded `while` loop (catches up over several
#              slots, fixes/C14-7.patch); 0: `if old_tlist[old_ind + 1] <= t + tol: old_ind += 1` as found
#   kk    = 1: get_full_tlist drops a point when it is within tol of the last KEPT point (loop, fixes/C14-8.patch);
#              0: `full_tlist[1:][np.diff(full_tlist) > tol]` as found (within tol of its predecessor, kept or not)
FLAGS = {"zl": 0, "ndmin": 0, "hold": 0, "hdr": 0, "dimsonly": 0, "cu": 0, "kk": 0, "cubic": "fun _ => .notAKnot", "read": False}

_CUBIC_HEAD = ["sp = CubicSpline(old_tlist, old_coeffs)", "new_coeff = sp(full_tlist)"]
_CUBIC_ZERO = ["new_coeff *= full_tlist <= old_tlist[-1]", "new_coeff *= full_tlist >= old_tlist[0]"]
_CUBIC_HOLD = ["new_coeff[full_tlist > old_tlist[-1]] = old_coeffs[-1]", "new_coeff[full_tlist < old_tlist[0]] = old_coeffs[0]"]


def _cubic_branch(fn):
    """the else-branch of `if '_step_func_coeff' in args and args[...]` -> (Lean term for Gen.cubicInterp, hold flag)"""
    for node in ast.walk(fn):
        if isinstance(node, ast.If) and "_step_func_coeff" in ast.unparse(node.test) and node.orelse:
            body = node.orelse
            stm = [ast.unparse(x) for x in body]
            tail = stm[-2:]
            if tail == _CUBIC_ZERO:
                hold = 0
            elif tail == _CUBIC_HOLD:
                hold = 1
            else:
                raise TranslatorError("cubic branch of _fill_coeff: treatment outside the channel's grid not recognised: " + "; ".join(tail))
            head = body[:-2]
            if [ast.unparse(x) for x in head] == _CUBIC_HEAD:
                return "fun _ => .notAKnot", hold
            # `if len(old_tlist) < K: new_coeff = np.interp(full_tlist, old_tlist, old_coeffs) else: <spline>`
            if (len(head) == 1 and isinstance(head[0], ast.If) and isinstance(head[0].test, ast.Compare)
                    and ast.unparse(head[0].test.left) == "len(old_tlist)" and len(head[0].test.ops) == 1
                    and isinstance(head[0].test.ops[0], (ast.Lt, ast.LtE)) and isinstance(head[0].test.comparators[0], ast.Constant)
                    and isinstance(head[0].test.comparators[0].value, int)
                    and [ast.unparse(x) for x in head[0].body] == ["new_coeff = np.interp(full_tlist, old_tlist, old_coeffs)"]
                    and [ast.unparse(x) for x in head[0].orelse] == _CUBIC_HEAD):
                k = head[0].test.comparators[0].value + (1 if isinstance(head[0].test.ops[0], ast.LtE) else 0)
                return f"fun n => if n < {k} then .linear else .notAKnot", hold
            raise TranslatorError("cubic branch of _fill_coeff not recognised: " + "; ".join(stm)[:300])
    raise TranslatorError("cubic branch of _fill_coeff not found")


def _func(tree, name):
    for node in ast.walk(tree):
        if isinstance(node, ast.FunctionDef) and node.name == name:
            return node
    raise TranslatorError(f"function {name} not found")


def detect_flags():
    src = os.path.join(paths.REPO, "src", "qutip_qip")
    try:
        t_pulse = ast.parse(open(os.path.join(src, "pulse.py")).read())
        t_proc = ast.parse(open(os.path.join(src, "device", "processor.py")).read())
    except Exception as e:
        raise TranslatorError(f"cannot parse pulse.py / processor.py: {e}")
    zl = None
    for node in ast.walk(_func(t_pulse, "_fill_coeff")):
        if isinstance(node, ast.If) and ast.unparse(node.test) == "len(old_coeffs) == len(old_tlist) - 1":
            if not node.orelse:
                zl = 0
            elif (len(node.orelse) == 1 and isinstance(node.orelse[0], ast.If) and not node.orelse[0].orelse
                  and ast.unparse(node.orelse[0].test) == "len(old_coeffs) == len(old_tlist)"
                  and [ast.unparse(x) for x in node.orelse[0].body] == ["old_coeffs = np.concatenate([old_coeffs[:-1], [0]])"]):
                zl = 1
            else:
                raise TranslatorError("padding of step coefficients in _fill_coeff not recognised: " + ast.unparse(node)[:200])
    if zl is None:
        raise TranslatorError("padding test of _fill_coeff not found")
    ndmin = None
    for node in ast.walk(_func(t_proc, "read_coeff")):
        if isinstance(node, ast.Call) and ast.unparse(node.func) == "np.loadtxt":
            kws = {k.arg: ast.unparse(k.value) for k in node.keywords}
            if set(kws) - {"delimiter", "ndmin"} or kws.get("delimiter") not in ("'\\t'", '"\\t"'):
                raise TranslatorError("np.loadtxt call of read_coeff not recognised: " + ast.unparse(node))
            if kws.get("ndmin") not in (None, "2"):
                raise TranslatorError("np.loadtxt call of read_coeff not recognised: " + ast.unparse(node))
            ndmin = 2 if kws.get("ndmin") == "2" else 0
    if ndmin is None:
        raise TranslatorError("np.loadtxt call of read_coeff not found")
    hdr = None
    for node in ast.walk(_func(t_proc, "save_coeff")):
        if isinstance(node, ast.Call) and ast.unparse(node.func) == "np.savetxt":
            kws = {k.arg: ast.unparse(k.value) for k in node.keywords}
            if (set(kws) - {"delimiter", "fmt", "header", "comments"} or kws.get("delimiter") not in ("'\\t'", '"\\t"')
                    or kws.get("fmt") not in ("'%1.16f'", '"%1.16f"')):
                raise TranslatorError("np.savetxt call of save_coeff not recognised: " + ast.unparse(node))
            if kws.get("header") == "header" and "comments" not in kws:
                hdr = 0
            elif kws.get("header") in ("'# ' + header", '"# " + header') and kws.get("comments") in ("''", '""'):
                hdr = 1
            else:
                raise TranslatorError("header of the np.savetxt call of save_coeff not recognised: " + ast.unparse(node))
    if hdr is None:
        raise TranslatorError("np.savetxt call of save_coeff not found")
    cubic, hold = _cubic_branch(_func(t_pulse, "_fill_coeff"))
    return {"zl": zl, "ndmin": ndmin, "hold": hold, "hdr": hdr, "dimsonly": _dims_only(t_proc), "cu": _advance_shape(t_pulse),
            "kk": _dedup_shape(t_proc), "cubic": cubic, "read": True}


_DEDUP_OLD = ["full_tlist = np.concatenate((full_tlist[:1], full_tlist[1:][np.diff(full_tlist) > tol]))", "return full_tlist"]
_DEDUP_NEW = ["kept = []",
              "for ind in range(len(full_tlist)):\n    if not kept or full_tlist[ind] - full_tlist[kept[-1]] > tol:\n        kept.append(ind)",
              "return full_tlist[kept]"]


def _dedup_shape(t_proc):
    """the statements of Processor.get_full_tlist after `full_tlist = np.unique(np.sort(np.hstack(full_tlist)))`"""
    fn = _func(t_proc, "get_full_tlist")
    stm = [ast.unparse(x) for x in fn.body if not (isinstance(x, ast.Expr) and isinstance(getattr(x, "value", None), ast.Constant))]
    key = "full_tlist = np.unique(np.sort(np.hstack(full_tlist)))"
    if key not in stm:
        raise TranslatorError("get_full_tlist: sorting / np.unique statement not recognised")
    tail = stm[stm.index(key) + 1:]
    if tail == _DEDUP_OLD:
        return 0
    if tail == [ast.unparse(ast.parse(x).body[0]) for x in _DEDUP_NEW]:
        return 1
    raise TranslatorError("get_full_tlist: de-duplication not recognised: " + "; ".join(tail)[:300])


_ADV_TEST = "old_tlist[old_ind + 1] <= t + tol"
_ADV_BODY = ["old_ind += 1"]


def _advance_shape(t_pulse):
    """the statement of the step loop of _fill_coeff that advances `old_ind`: `if <test>` (0) or the bounded
    `while old_ind + 1 < len(old_tlist) and <test>` (1)"""
    found = None
    for node in ast.walk(_func(t_pulse, "_fill_coeff")):
        if isinstance(node, (ast.If, ast.While)) and _ADV_TEST in ast.unparse(node.test):
            body = [ast.unparse(x) for x in node.body]
            if body != _ADV_BODY or node.orelse:
                raise TranslatorError("advance step of _fill_coeff: body not recognised: " + "; ".join(body)[:200])
            test = ast.unparse(node.test)
            if isinstance(node, ast.If) and test == _ADV_TEST:
                shape = 0
            elif isinstance(node, ast.While) and test == "old_ind + 1 < len(old_tlist) and " + _ADV_TEST:
                shape = 1
            else:
                raise TranslatorError("advance step of _fill_coeff not recognised: " + ast.unparse(node)[:200])
            if found is not None:
                raise TranslatorError("advance step of _fill_coeff found twice")
            found = shape
    if found is None:
        raise TranslatorError("advance step of _fill_coeff not found")
    return found


_MODEL_INIT_OLD = ["self.num_qubits = num_qubits if num_qubits is not None else N",
                   "self.dims = dims if dims is not None else num_qubits * [2]"]
_MODEL_INIT_NEW = ["if num_qubits is None:\n    if dims is None:\n        raise ValueError('Either num_qubits or dims must be given.')\n"
                   "    num_qubits = len(dims)",
                   "self.num_qubits = num_qubits",
                   "self.dims = dims if dims is not None else num_qubits * [2]"]


def _dims_only(t_proc):
    """how Model.__init__ settles num_qubits / dims (the first statements up to the assignment of self.dims)"""
    for node in ast.walk(t_proc):
        if isinstance(node, ast.ClassDef) and node.name == "Model":
            for fn in node.body:
                if isinstance(fn, ast.FunctionDef) and fn.name == "__init__":
                    head = []
                    for st in fn.body:
                        head.append(ast.unparse(st))
                        if head[-1].startswith("self.dims ="):
                            break
                    if head == _MODEL_INIT_OLD:
                        return 0
                    if head == [ast.unparse(ast.parse(x).body[0]) for x in _MODEL_INIT_NEW]:
                        return 1
                    raise TranslatorError("Model.__init__: settling of num_qubits / dims not recognised: " + "; ".join(head)[:300])
    raise TranslatorError("class Model / its __init__ not found in device/processor.py")


def flags():
    if not FLAGS["read"]:
        try:
            FLAGS.update(detect_flags())
        except TranslatorError:
            pass
    return FLAGS


def with_flags(line):
    f = flags()
    if line.startswith("coeffs "):
        return line + f" zl={f['zl']} cu={f['cu']} kk={f['kk']}"
    if line.startswith("tlist "):
        return line + f" kk={f['kk']}"
    if line.startswith("fill "):
        return line + f" zl={f['zl']} cu={f['cu']}"
    if line.startswith("readshape "):
        return line + f" ndmin={f['ndmin']}"
    if line.startswith("header "):
        return line + f" hdr={f['hdr']}"
    return line


class _Drv:
    """driver proxy that appends the variant flags of the working tree to every request"""
    def __init__(self, d):
        self.d = d

    def run(self, lines):
        return self.d.run([with_flags(l) for l in lines])

TOL = F(1, 10**10)


def fs(x):
    x = F(x)
    return str(x.numerator) if x.denominator == 1 else f"{x.numerator}/{x.denominator}"


def fl(xs):
    xs = list(xs)
    return ",".join(fs(x) for x in xs) if xs else "-"


def pfl(s):
    return [F(x) for x in s.split(",") if x not in ("", "-")]


def exact_eq(xs, rs):
    xs = list(xs)
    return len(xs) == len(rs) and all(F(float(a)) == b for a, b in zip(xs, rs))


def _impl():
    import qutip
    from qutip_qip.device import Processor
    from qutip_qip.pulse import _fill_coeff, Pulse
    return qutip, Processor, _fill_coeff, Pulse


def classify_exc(e):
    if isinstance(e, IndexError):
        return "index"
    if isinstance(e, ValueError):
        m = str(e)
        if "is invalid" in m or "The length of" in m or "length" in m:
            return "shape"
        return "other:ValueError:" + m[:60]
    if isinstance(e, TypeError):
        return "type"
    return "other:" + type(e).__name__ + ":" + str(e)[:60]


# ----------------------------------------------------------------------------------------------
# generators
def gen_grid(rng, q=20, nmax=6, tmax=8, start0=True):
    """strictly increasing dyadic grid (multiples of 2^-q), starting at 0"""
    n = rng.randint(2, nmax)
    if start0 and rng.random() < 0.3:
        st = F(rng.randint(1, 2**6), 2**rng.randint(0, 8))
        return [st * i for i in range(n)]
    pts = {F(0)} if start0 else set()
    while len(pts) < n:
        pts.add(F(rng.randint(1, tmax * 16), 16) if rng.random() < 0.6 else F(rng.randint(1, tmax * 2**q), 2**q))
    return sorted(pts)


def gen_coeffs(rng, n, full=None, last_zero=True):
    """n-1 coefficients, or n (full length) with the last one zero / arbitrary"""
    if full is None:
        full = rng.random() < 0.3
    cs = [F(rng.randint(-16, 16), 8) for _ in range(n if full else n - 1)]
    if full and last_zero:
        cs[-1] = F(0)
    return cs


def perturb_tol(rng, grids):
    """move some points of later channels to 2^-40 / 2^-30 next to points of other channels (tolerance stream)"""
    out = [list(grids[0])]
    for g in grids[1:]:
        pool = [x for gg in out for x in gg if x > 0]
        g = list(g)
        for i in range(1, len(g)):
            if pool and rng.random() < 0.4:
                g[i] = rng.choice(pool) + rng.choice([1, -1]) * F(1, 2**rng.choice([40, 40, 30]))
        g = sorted(set(x for x in g if x >= 0))
        if len(g) >= 2 and g[0] == 0:
            out.append(g)
        else:
            out.append([F(0)] + [x for x in g if x > 0] + ([F(1)] if len(g) < 2 else []))
            out[-1] = sorted(set(out[-1]))
    return out


def gap_ok(g, tol=TOL):
    return all(g[i + 1] - g[i] > tol for i in range(len(g) - 1))


# ----------------------------------------------------------------------------------------------
# specification objects written independently of the model
def step_value(tl, cs, t):
    """value of the slot containing t; 0 before the first and from the last grid point on"""
    if t < tl[0] or t >= tl[-1]:
        return 0
    i = bisect.bisect_right(tl, t) - 1
    return cs[i] if i < len(cs) else 0


def is_const(ch):
    """a channel given as `coeff=True/False` (with or without a tlist of its own)"""
    return isinstance(ch["coeff"], bool)


def chan_value(ch, t):
    """the STATED coefficient of a channel at the real time t.  An array is the step function of its grid.  A bool is 'a
    constant 1 or 0' (Pulse docstring) for the whole evolution: its tlist only contributes points to the merged grid -
    that is what all four observables of the code as found do (resampled coefficients, analytical propagators, solver,
    save/reload)."""
    if is_const(ch):
        return 1.0 if ch["coeff"] else 0.0
    return step_value(ch["tlist"], ch["coeff"], t)


def inside(a, b):
    """a time strictly inside the slice [a, b) (the midpoint); `a` itself when there is no float between the two"""
    m = 0.5 * (a + b)
    return m if a < m < b else a


def herm(rng_np, d):
    a = rng_np.normal(size=(d, d)) + 1j * rng_np.normal(size=(d, d))
    return (a + a.conj().T) / 2


def make_spec(rng, full_prob=0.3, last_zero=True, nsub=None, const=None):
    """a random processor: dims, optional drift, 1-4 controls, independent non-uniform grids"""
    nsub = nsub or rng.randint(1, 3)
    dims = [rng.choice([2, 3]) for _ in range(nsub)]
    if int(np.prod(dims)) > 18:
        dims = [2] * nsub
    seed = rng.randrange(2**31)
    nch = rng.randint(1, 4)
    chans = []
    for _ in range(nch):
        k = rng.randint(1, min(2, nsub))
        targets = rng.sample(range(nsub), k)
        n = rng.randint(2, 6)
        tl = [0.0]
        for _i in range(n - 1):
            tl.append(tl[-1] + rng.choice([rng.uniform(0.05, 0.8), rng.randint(1, 6) / 8]))
        full = rng.random() < full_prob
        cs = [rng.uniform(-2, 2) for _ in range(n if full else n - 1)]
        if full and last_zero:
            cs[-1] = 0.0
        chans.append({"targets": targets, "tlist": tl, "coeff": cs})
    drift = None
    if rng.random() < 0.6:
        k = rng.randint(1, min(2, nsub))
        drift = {"targets": rng.sample(range(nsub), k)}
    spec = {"dims": dims, "seed": seed, "chans": chans, "drift": drift, "dm": rng.random() < 0.4}
    if (rng.random() < 0.3) if const is None else const:
        add_const_channel(rng, spec)
    if rng.random() < 0.6:
        spec["ctor"] = rng.choice(ctor_forms(dims))
    return spec


CONST_SHAPES = ["ends-early", "ends-last", "starts-late", "same-end", "no-tlist"]


def add_const_channel(rng, spec, shape=None, value=None):
    """insert one channel given as `coeff=True` / `coeff=False`: with a tlist of its own that ends before / after / with the
    array channels or starts after 0, or without tlist"""
    nsub = len(spec["dims"])
    T = max(ch["tlist"][-1] for ch in spec["chans"] if not is_const(ch))
    shape = shape or rng.choice(CONST_SHAPES + ["ends-early"])
    if shape == "ends-early":
        tl = [0.0] + sorted(rng.uniform(0.05, 0.85) * T for _ in range(rng.randint(1, 3)))
    elif shape == "ends-last":
        tl = [0.0, rng.uniform(0.1, 0.9) * T, rng.uniform(1.1, 1.5) * T]
    elif shape == "starts-late":
        tl = sorted(rng.uniform(0.15, 0.9) * T for _ in range(rng.randint(2, 3)))
    elif shape == "same-end":
        tl = [0.0, float(T)]
    else:
        tl = None
    val = (rng.random() < 0.8) if value is None else bool(value)
    ch = {"targets": rng.sample(range(nsub), rng.randint(1, min(2, nsub))), "tlist": tl, "coeff": val}
    spec["chans"].insert(rng.randint(0, len(spec["chans"])), ch)
    return spec


ROUNDING_FORMS = ["cumsum", "literal", "multiple", "right-assoc", "linspace"]


def rounded_points(form, ks, unit):
    """the breakpoints sum(ks[:j]) / unit, j = 0..n, computed in floating point in one of several customary ways: the
    results are equal as real numbers up to rounding errors of a few ulp, not bitwise"""
    n = len(ks)
    if form == "cumsum":                  # accumulated durations: ((d1 + d2) + d3) + ...
        out, t = [0.0], 0.0
        for k in ks:
            t = t + k / unit
            out.append(t)
        return out
    if form == "literal":                 # the correctly rounded decimal, as typed in
        return [float(F(sum(ks[:j]), unit)) for j in range(n + 1)]
    if form == "multiple":                # k * 0.1
        return [sum(ks[:j]) * (1.0 / unit) for j in range(n + 1)]
    if form == "right-assoc":             # d1 + (d2 + (d3 + ...))
        out = [0.0]
        for j in range(1, n + 1):
            t = 0.0
            for k in reversed(ks[:j]):
                t = k / unit + t
            out.append(t)
        return out
    if form == "linspace":                # total * (position / total)
        tot = sum(ks)
        return [float(x) for x in (np.array([sum(ks[:j]) for j in range(n + 1)], dtype=float) / tot) * (tot / unit)]
    raise ValueError(form)


def make_rounding_spec(rng, nsub=None):
    """`_rounding_spec`, preferring (3 of 4) specs in which two channel ends are equal but not bitwise"""
    want = rng.random() < 0.75
    for _ in range(6):
        spec = _rounding_spec(rng, nsub)
        if not want or "ends=equal-not-bitwise" in rounding_tags(spec):
            break
    return spec


def _rounding_spec(rng, nsub=None):
    """step channels whose breakpoints and END POINTS coincide as real numbers but not bitwise: all channels share the
    exact breakpoints P_j = (k_1 + ... + k_j)/unit (decimal fractions); every channel computes the ones it uses in its
    own way (cumsum of durations, typed-in decimals, k*0.1, another association order, scaled linspace), keeps a subset
    of the interior ones and ends at the common end (or, sometimes, at an interior breakpoint of the others).  Every
    coefficient, the last one in particular, is non-zero."""
    nsub = nsub or rng.randint(1, 2)
    dims = [rng.choice([2, 3]) for _ in range(nsub)]
    unit = rng.choice([10, 10, 10, 100, 20, 1000])
    n = rng.randint(2, 5)
    ks = [rng.randint(1, 9) for _ in range(n)]
    nch = rng.randint(2, 4)
    forms = [rng.choice(ROUNDING_FORMS) for _ in range(nch)]
    if len(set(forms[:2])) == 1:
        forms[1] = rng.choice([f for f in ROUNDING_FORMS if f != forms[0]])
    chans = []
    for i, form in enumerate(forms):
        pts = rounded_points(form, ks, unit)
        last = n if (i < 2 or rng.random() < 0.7) else rng.randint(1, n)          # the first two end together
        keep = [0] + [j for j in range(1, last) if rng.random() < 0.6] + [last]
        tl = [pts[j] for j in keep]
        cs = [rng.choice([-1, 1]) * rng.uniform(0.3, 2.0) for _ in range(len(tl) - 1)]
        chans.append({"targets": rng.sample(range(nsub), rng.randint(1, min(2, nsub))), "tlist": tl, "coeff": cs})
    drift = {"targets": rng.sample(range(nsub), rng.randint(1, min(2, nsub)))} if rng.random() < 0.6 else None
    return {"dims": dims, "seed": rng.randrange(2**31), "chans": chans, "drift": drift, "dm": rng.random() < 0.3,
            "rounding": {"unit": unit, "ks": ks, "forms": forms}}


def make_dtype_spec(rng, all_int=None):
    """step channels on integer-valued (or, for float32, dyadic) time grids handed over as integer-dtype arrays (int64, int32,
    np.arange), float32 arrays, Python lists / tuples - half of the specs with EVERY grid of integer dtype, so that the merged
    grid is an integer array -, coefficients as float64 / float32 / integer arrays with values that are not integers (multiples
    of 1/8) unless the container is an integer one"""
    nsub = rng.randint(1, 2)
    dims = [rng.choice([2, 3]) for _ in range(nsub)]
    if all_int is None:
        all_int = rng.random() < 0.5
    chans = []
    for _ in range(rng.randint(1, 3)):
        tk = rng.choice(["i64", "i32", "arange", "ilist"] if all_int else T_KINDS)
        n = rng.randint(2, 5)
        if tk == "arange":
            st = rng.randint(1, 3)
            tl = [float(st * i) for i in range(n)]
        elif tk == "f32" and rng.random() < 0.6:
            tl = [0.0]
            for _i in range(n - 1):
                tl.append(tl[-1] + rng.randint(1, 12) / 8)
        else:
            tl = [0.0]
            for _i in range(n - 1):
                tl.append(tl[-1] + rng.randint(1, 3))
        ck = rng.choice(C_KINDS)
        if ck in ("i64", "i32"):
            cs = [float(rng.choice([-3, -2, -1, 1, 2, 3])) for _ in range(n - 1)]
        else:
            cs = [rng.choice([-1, 1]) * rng.randint(1, 15) / 8 for _ in range(n - 1)]
        if rng.random() < 0.25 and flags()["zl"]:
            cs = cs + [cs[0]]                      # full length: the last element has no effect
        chans.append({"targets": rng.sample(range(nsub), rng.randint(1, min(2, nsub))), "tlist": tl, "coeff": cs,
                      "tkind": tk, "ckind": ck})
    drift = {"targets": rng.sample(range(nsub), rng.randint(1, min(2, nsub)))} if rng.random() < 0.5 else None
    return {"dims": dims, "seed": rng.randrange(2**31), "chans": chans, "drift": drift, "dm": rng.random() < 0.3}


def dtype_tags(spec):
    tks = sorted({c.get("tkind", "f64") for c in spec["chans"] if c.get("tlist") is not None})
    cks = sorted({c.get("ckind", "f64") for c in spec["chans"] if not is_const(c)})
    merged_int = all(k in ("i64", "i32", "arange", "ilist") for k in tks)
    return ["containers", "merged grid dtype=" + ("integer" if merged_int else "float")] + \
        ["tlist as " + k for k in tks] + ["coeff as " + k for k in cks]


NEAR_SCALES = [1.0, 20.0, 1e3, 1e6]


def make_near_spec(rng, S=None, d=None):
    """two points of DIFFERENT channels that are distinct for the merged grid (more than tol = 1e-10 apart) but close:
    gap d in {1.5e-10, 5e-10, 1e-9, 3e-11*t, 9e-11*t, 1e-8*t} at a time of the order S in {1, 20, 1e3, 1e6}; every channel's own
    steps are of the order S (far above tol), the coefficients (of the order 1/S, so that the evolution stays a rotation by
    O(1)) differ before and after the close pair.  A tolerance that grows with t would merge the pair."""
    S = S or rng.choice(NEAR_SCALES)
    nsub = rng.randint(1, 2)
    dims = [rng.choice([2, 3]) for _ in range(nsub)]

    def base():
        n = rng.randint(3, 5)
        tl = [0.0]
        for _ in range(n - 1):
            tl.append(tl[-1] + rng.uniform(0.25, 0.9))
        return tl
    A = base()
    i = rng.randrange(1, len(A) - 1) if len(A) > 2 else 1
    pa = A[i] * S
    cands = [x for x in (d,) if x] or [1.5e-10, 5e-10, 1e-9, 3e-11 * pa, 9e-11 * pa, 1e-8 * pa]
    cands = [x for x in cands if (pa + x) - pa > 1.2e-10] or [3e-10 * max(1.0, pa)]
    gap = rng.choice(cands)
    later = rng.random() < 0.7                       # the other channel's point is the later one of the pair
    pb = pa + gap if later else pa - gap
    before = sorted(rng.uniform(0.15, 0.85) * A[i] for _ in range(rng.randint(0, 1)))
    after = sorted(A[i] + rng.uniform(0.2, 1.5) * (k + 1) for k in range(rng.randint(1, 2)))
    B = [0.0] + [x * S for x in before] + [pb] + [x * S for x in after]
    grids = [[x * S for x in A], B]
    for _ in range(rng.randint(0, 1)):
        grids.append([x * S for x in base()])
    order = list(range(len(grids)))
    rng.shuffle(order)
    chans = []
    for k in order:
        tl = grids[k]
        cs, last = [], 0.0
        for _ in range(len(tl) - 1):
            c = last
            while abs(c - last) < 0.3:
                c = rng.choice([-1, 1]) * rng.uniform(0.3, 2.0)
            cs.append(c / S)
            last = c
        chans.append({"targets": rng.sample(range(nsub), rng.randint(1, min(2, nsub))), "tlist": tl, "coeff": cs})
    return {"dims": dims, "seed": rng.randrange(2**31), "chans": chans, "drift": None, "dm": rng.random() < 0.3,
            "near": {"scale": S, "t": pa, "gap": (pa + gap) - pa if later else pa - (pa - gap)}}


def near_tags(spec):
    n = spec.get("near") or {}
    return ["near-coincident distinct points", f"near: t~{n.get('scale'):g}", "near: gap/tol=" + ("<2" if n.get("gap", 0) < 2e-10 else "<10" if n.get("gap", 0) < 1e-9 else "<=100" if n.get("gap", 0) <= 1e-8 else ">100")]


def rounding_tags(spec):
    """which coincidences of the spec are not bitwise"""
    ends = [ch["tlist"][-1] for ch in spec["chans"] if not is_const(ch)]
    top = max(ends)
    near = sorted({e for e in ends if e != top and abs(e - top) < 1e-9})
    pts = sorted({t for ch in spec["chans"] if ch.get("tlist") is not None for t in ch["tlist"]})
    inner = any(0 < b - a < 1e-9 for a, b in zip(pts[:-1], pts[1:]) if b < top - 1e-9)
    return ["ends=" + ("equal-not-bitwise" if near else "bitwise-equal-or-apart"), "interior-coincidence-not-bitwise=" + str(inner)]


# every documented way to construct a Processor: Processor(num_qubits), Processor(num_qubits, dims=...), Processor(dims=...),
# the old keyword N=..., Processor(model=Model(...))
CTOR_FORMS = ["both", "dims", "num_qubits", "N", "model"]


def ctor_forms(dims):
    """the constructor forms that can produce `dims` (dims-only only on a tree where Model.__init__ supports it)"""
    out = ["both", "model"]
    if flags()["dimsonly"]:
        out.append("dims")
    if all(d == 2 for d in dims):
        out += ["num_qubits", "N"]
    return out


def new_processor(dims, ctor="both", spline="step_func"):
    from qutip_qip.device import Processor
    from qutip_qip.device.processor import Model
    dims = list(dims)
    if ctor == "dims":
        return Processor(dims=dims, spline_kind=spline)
    if ctor == "num_qubits":
        return Processor(num_qubits=len(dims), spline_kind=spline)
    if ctor == "N":
        return Processor(N=len(dims), spline_kind=spline)
    if ctor == "model":
        return Processor(model=Model(len(dims), dims=dims), spline_kind=spline)
    return Processor(len(dims), dims=dims, spline_kind=spline)


def ctor_text(dims, ctor):
    n = len(dims)
    return {"dims": f"Processor(dims={list(dims)})", "num_qubits": f"Processor(num_qubits={n})", "N": f"Processor(N={n})",
            "model": f"Processor(model=Model({n}, dims={list(dims)}))"}.get(ctor, f"Processor({n}, dims={list(dims)})")


def build_processor(spec, labels=None):
    qutip, Processor, _f, _P = _impl()
    dims = spec["dims"]
    rng_np = np.random.default_rng(spec["seed"])
    p = new_processor(dims, spec.get("ctor", "both"), spec.get("spline", "step_func"))
    if list(p.dims) != list(dims) or p.num_qubits != len(dims):
        raise ValueError(f"{ctor_text(dims, spec.get('ctor', 'both'))} has dims {p.dims}, num_qubits {p.num_qubits}")
    mats = []
    drift_full = np.zeros((int(np.prod(dims)),) * 2, dtype=complex)
    if spec.get("drift"):
        t = spec["drift"]["targets"]
        d = int(np.prod([dims[i] for i in t]))
        M = herm(rng_np, d)
        q = qutip.Qobj(M, dims=[[dims[i] for i in t]] * 2)
        p.add_drift(q, t)
        drift_full = embed(M, t, dims)
    labels = labels or [f"c{i}" for i in range(len(spec["chans"]))]
    for lab, ch in zip(labels, spec["chans"]):
        t = ch["targets"]
        d = int(np.prod([dims[i] for i in t]))
        M = herm(rng_np, d)
        q = qutip.Qobj(M, dims=[[dims[i] for i in t]] * 2)
        p.add_control(q, t, label=lab)
        mats.append(embed(M, t, dims))
    return p, labels, drift_full, mats


# containers / dtypes a time grid or a coefficient array may be handed over in (channel keys "tkind" / "ckind"; default f64).
# The VALUES of the spec are the exact numbers in every case (integer kinds are only used for integer values, f32 for values
# float32 represents exactly), so the stated Hamiltonian does not depend on the container.
T_KINDS = ["f64", "i64", "i32", "f32", "arange", "list", "ilist", "tuple"]
C_KINDS = ["f64", "f32", "i64", "i32"]      # a Python list as coefficient is refused by get_full_coeffs (documented ValueError)
_NP_KIND = {"f64": np.float64, "f32": np.float32, "i64": np.int64, "i32": np.int32}


def kind_ok(values, kind):
    """can the container hold the values exactly?"""
    vs = [float(v) for v in values]
    if kind in ("i64", "i32", "ilist", "arange"):
        return all(v.is_integer() for v in vs)
    if kind == "f32":
        return all(float(np.float32(v)) == v for v in vs)
    return True


# every array / list the harness hands to the API (the CALLER's objects), with a snapshot: no call of the processor may change
# them (handed_changed).  _SHARE: one object for all channels of a share group of the processor being built.
HANDED = []
_SHARE = {}


def handed_reset():
    del HANDED[:]
    _SHARE.clear()


def handed_changed():
    """-> None, or which of the caller's containers no longer holds what was handed over"""
    for what, obj, snap in HANDED:
        now = obj.tolist() if isinstance(obj, np.ndarray) else list(obj)
        if now != snap and not (len(now) == len(snap) and all(a == b or (a != a and b != b) for a, b in zip(now, snap))):
            return f"the caller's {what} was modified by the processor: handed over {snap!r}, now {now!r}"
    return None


def as_container(values, kind, share=None, what="array"):
    if share is not None and share in _SHARE:
        return _SHARE[share]
    obj = _as_container(values, kind)
    HANDED.append((what + (f" (one object shared by the channels of group {share[1]})" if share is not None else ""), obj,
                   obj.tolist() if isinstance(obj, np.ndarray) else list(obj)))
    if share is not None:
        _SHARE[share] = obj
    return obj


def _as_container(values, kind):
    vs = [float(v) for v in values]
    if not kind or kind == "f64" or not kind_ok(vs, kind):
        return np.array(vs, dtype=float)
    if kind == "list":
        return list(vs)
    if kind == "tuple":
        return tuple(vs)
    if kind == "ilist":
        return [int(v) for v in vs]
    if kind == "arange":
        iv = [int(v) for v in vs]
        steps = {b - a for a, b in zip(iv[:-1], iv[1:])}
        if len(iv) >= 2 and len(steps) == 1:
            return np.arange(iv[0], iv[-1] + 1, steps.pop())
        return np.array(iv)                 # dtype inferred: the platform integer
    return np.array(vs).astype(_NP_KIND[kind])


def load_pulses(p, labels, spec):
    """set_coeffs builds Pulse(ham, targets, coeff=..., label=...) per channel (coeff an array, or True / False for a
    constant channel), set_tlist gives every channel that has one its own tlist; containers as the channel says"""
    chans = list(zip(labels, spec["chans"]))
    _SHARE.clear()
    sh = lambda ch, k: ((k, ch[k]) if ch.get(k) is not None else None)
    p.set_coeffs({lab: (bool(ch["coeff"]) if is_const(ch) else
                        as_container(ch["coeff"], ch.get("ckind"), sh(ch, "cshare"), "coefficient array")) for lab, ch in chans})
    p.set_tlist({lab: as_container(ch["tlist"], ch.get("tkind"), sh(ch, "tshare"), "tlist") for lab, ch in chans
                 if ch.get("tlist") is not None})


def embed(M, targets, dims):
    """dense embedding written directly (matrix element = M on the target digits, delta elsewhere)"""
    N = len(dims)
    tot = int(np.prod(dims))
    idx = np.array(np.unravel_index(np.arange(tot), dims)).T
    od = [dims[t] for t in targets]
    a = np.ravel_multi_index(idx[:, targets].T, od)
    rest = [i for i in range(N) if i not in targets]
    if rest:
        r = np.ravel_multi_index(idx[:, rest].T, [dims[i] for i in rest])
    else:
        r = np.zeros(tot, dtype=int)
    return M[np.ix_(a, a)] * (r[:, None] == r[None, :])


def reference_U(grid, spec, drift_full, mats):
    """ordered product of slice exponentials of H = drift + sum step_value * control over `grid`"""
    import scipy.linalg as sla
    tot = drift_full.shape[0]
    U = np.eye(tot, dtype=complex)
    for a, b in zip(grid[:-1], grid[1:]):
        H = drift_full.copy()
        for ch, M in zip(spec["chans"], mats):
            # value inside the slice (the grid contains every breakpoint, up to rounding: evaluated at the midpoint)
            H = H + chan_value(ch, inside(a, b)) * M
        U = sla.expm(-1j * H * (b - a)) @ U
    return U


def init_state(spec):
    qutip = _impl()[0]
    dims = spec["dims"]
    rng_np = np.random.default_rng(spec["seed"] + 1)
    v = rng_np.normal(size=int(np.prod(dims))) + 1j * rng_np.normal(size=int(np.prod(dims)))
    v = v / np.linalg.norm(v)
    ket = qutip.Qobj(v.reshape(-1, 1), dims=[list(dims), [1] * len(dims)])
    return ket, v


def solver_final(p, psi, dm, tlist):
    """run_state (noise-free processor).  -> (final state as ndarray, how, error or None)"""
    qutip = _impl()[0]
    # dop853: the default multistep "adams" integrator loses accuracy at the jumps of step pulses
    # (observed 4e-6 at atol=rtol=1e-10, 2.5e-5 with default options); that is solver numerics, not the model
    opts = {"method": "dop853", "atol": 1e-10, "rtol": 1e-10, "nsteps": 100000}
    init = psi * psi.dag() if dm else psi
    err = None
    try:
        r = p.run_state(init, options=dict(opts))
        return r.states[-1].full(), "run_state", None
    except AttributeError as e:
        err = f"{type(e).__name__}: {e}"
    qu, c_ops = p.get_qobjevo(noisy=True)
    o = dict(opts, max_step=float(tlist[-1]) / 10, progress_bar=False)
    if dm or c_ops:
        r = qutip.mesolve(qu, init, tlist, c_ops=c_ops, options=o)
    else:
        r = qutip.sesolve(qu, init, tlist, options=o)
    return r.states[-1].full(), "get_qobjevo+solver", err


def union_grid(spec):
    return sorted({t for ch in spec["chans"] if ch.get("tlist") is not None for t in ch["tlist"]})


# ----------------------------------------------------------------------------------------------
# cubic (spline) coefficients: independent reference = the interpolating spline of degree min(3, n-1) through
# the samples (not-a-knot, which is what scipy's CubicSpline default and QuTiP's order-3 coefficient both are),
# evaluated with scipy.interpolate.make_interp_spline (not the CubicSpline call of the code)
def ref_spline(tl, cs):
    from scipy.interpolate import make_interp_spline
    return make_interp_spline(np.asarray(tl, dtype=float), np.asarray(cs, dtype=float), k=min(3, len(tl) - 1))


def ref_cubic_value(ch, sp, t):
    """spline inside the channel's range; outside the resampling of the code (and this reference) is 0"""
    if is_const(ch):                 # `coeff=True/False`: constant for the whole evolution
        return 1.0 if ch["coeff"] else 0.0
    tl = ch["tlist"]
    if tl[0] <= t <= tl[-1]:
        return float(sp(t))
    if flags()["hold"]:
        return float(ch["coeff"][-1] if t > tl[-1] else ch["coeff"][0])
    return 0.0


def make_cubic_spec(rng, same_end=None, counts=None, const=None):
    nsub = rng.randint(1, 2)
    dims = [rng.choice([2, 3]) for _ in range(nsub)]
    nch = len(counts) if counts else rng.randint(1, 3)
    if same_end is None:
        same_end = rng.random() < 0.5
    t_end = rng.uniform(1.0, 2.5)
    chans = []
    for i in range(nch):
        n = counts[i] if counts else rng.choice([2, 3, 3, 4, 5, 6, 7])
        end = t_end if (same_end or i == 0) else rng.uniform(0.4, 0.95) * t_end
        inner = sorted(rng.uniform(0.08, 0.92) * end for _ in range(n - 2))
        # keep the points apart (well above tol, and away from a badly conditioned spline)
        tl = [0.0] + inner + [end]
        if any(tl[j + 1] - tl[j] < 0.04 * end for j in range(len(tl) - 1)):
            tl = [end * j / (n - 1) for j in range(n)]
            tl = [x + (rng.uniform(-0.2, 0.2) * end / (n - 1) if 0 < j < n - 1 else 0.0) for j, x in enumerate(tl)]
            tl[0], tl[-1] = 0.0, end
        cs = [rng.uniform(-2, 2) for _ in range(n)]
        if end < t_end and not flags()["hold"]:
            cs[-1] = 0.0        # unrepaired tree: past its end the code resamples 0, the QuTiP-5 solver holds the last sample
        k = rng.randint(1, min(2, nsub))
        chans.append({"targets": rng.sample(range(nsub), k), "tlist": tl, "coeff": cs})
    drift = {"targets": rng.sample(range(nsub), rng.randint(1, min(2, nsub)))} if rng.random() < 0.6 else None
    spec = {"dims": dims, "seed": rng.randrange(2**31), "chans": chans, "drift": drift, "dm": rng.random() < 0.3,
            "spline": "cubic"}
    if (rng.random() < 0.3) if const is None else const:
        # unrepaired tree: a spline channel that ends before the evolution does must have a zero last sample (see above)
        add_const_channel(rng, spec, shape=rng.choice([x for x in CONST_SHAPES if flags()["hold"] or x != "ends-last"]))
    return spec


def cubic_family():
    """deterministic: a channel with 2, 3, 4, 5 samples next to a finer 7-point channel, same end / earlier end"""
    out = []
    fine = [0.0, 0.2, 0.5, 0.6, 0.9, 1.1, 1.3]
    fc = [0.9, -1.3, 0.6, 1.7, -0.2, 0.8, 0.3]
    grids = {2: [0.0, 1.3], 3: [0.0, 0.5, 1.3], 4: [0.0, 0.35, 0.8, 1.3], 5: [0.0, 0.3, 0.55, 1.0, 1.3]}
    vals = {2: [0.4, -0.8], 3: [0.4, 2.1, -0.8], 4: [0.4, 2.1, -0.8, 1.2], 5: [0.4, 2.1, -0.8, 1.2, -0.5]}
    for n in (2, 3, 4, 5):
        for early in (False, True):
            tl = [x * (0.7 if early else 1.0) for x in grids[n]]
            cs = list(vals[n])
            if early:
                cs[-1] = 0.0
            out.append({"dims": [2, 2], "seed": 11 + n, "drift": {"targets": [0, 1]}, "dm": False, "spline": "cubic",
                        "chans": [{"targets": [0], "tlist": tl, "coeff": cs},
                                  {"targets": [1], "tlist": list(fine), "coeff": list(fc)}]})
    return out


def ref_cubic_state(spec, drift_full, mats, v, t_end):
    """independent integration of i y' = H(t) y with H = drift + sum spline_k(t) control_k"""
    from scipy.integrate import solve_ivp
    sps = [None if is_const(ch) else ref_spline(ch["tlist"], ch["coeff"]) for ch in spec["chans"]]

    def rhs(t, y):
        H = drift_full.copy()
        for ch, sp, M in zip(spec["chans"], sps, mats):
            H = H + ref_cubic_value(ch, sp, t) * M
        return -1j * (H @ y)

    ends = sorted({ch["tlist"][-1] for ch in spec["chans"] if ch.get("tlist") is not None} | {float(t_end)})
    y, t0 = np.asarray(v, dtype=complex), 0.0
    for t1 in ends:                     # restart at the kinks (channel ends)
        if t1 > t0:
            sol = solve_ivp(rhs, (t0, t1), y, method="DOP853", rtol=1e-10, atol=1e-12, max_step=(t1 - t0) / 20)
            y, t0 = sol.y[:, -1], t1
    return y


def cubic_exact_reload(spec):
    """reloading installs, for every channel, the spline through its values on the merged grid; that is the same
    function when all channels end together and every channel is a single polynomial piece (<= 4 samples) or
    already lives on the merged grid"""
    merged = union_grid(spec)
    arrays = [ch for ch in spec["chans"] if not is_const(ch)]         # a constant channel reloads as the spline through ones
    if len(merged) < 4 or any(ch["tlist"][-1] != merged[-1] or ch["tlist"][0] != merged[0] for ch in arrays):
        return False
    return all(len(ch["tlist"]) <= 4 or sorted(ch["tlist"]) == merged for ch in arrays)


def check_cubic(spec, solver=True, full=False):
    """C14 for a processor with spline_kind='cubic'.  -> None or the first mismatch.
    `full`: also judge the solver against the resampled coefficients past a channel's end."""
    p, labels, drift_full, mats = build_processor(spec)
    load_pulses(p, labels, spec)
    sps = [None if is_const(ch) else ref_spline(ch["tlist"], ch["coeff"]) for ch in spec["chans"]]
    arrays = [ch for ch in spec["chans"] if not is_const(ch)]
    try:
        T = np.asarray(p.get_full_tlist(), dtype=float)
        C = np.asarray(p.get_full_coeffs(), dtype=float)
    except Exception as e:
        return f"get_full_tlist/get_full_coeffs raised {type(e).__name__}: {e}"
    union = union_grid(spec)
    if len(T) != len(union) or np.abs(T - np.array(union)).max() > 0:
        return "get_full_tlist is not the sorted union of the channel grids"
    ref = np.array([[ref_cubic_value(ch, sp, t) for t in T] for ch, sp in zip(spec["chans"], sps)])
    scale = max(1.0, np.abs(ref).max())
    if C.shape != ref.shape:
        return f"get_full_coeffs has shape {C.shape}"
    bad = np.argwhere(np.abs(C - ref) > 1e-9 * scale)
    if len(bad):
        m, k = bad[0]
        if is_const(spec["chans"][m]):
            return (f"get_full_coeffs: channel {m} (coeff={spec['chans'][m]['coeff']}, tlist {spec['chans'][m].get('tlist')!r}) at "
                    f"t={float(T[k])!r} is {float(C[m][k])!r}, a constant pulse is {float(ref[m][k])!r}")
        return (f"get_full_coeffs: channel {m} ({len(spec['chans'][m]['tlist'])} samples) at t={float(T[k])!r} is {float(C[m][k])!r}, "
                f"the spline through its samples is {float(ref[m][k])!r}")
    # run_analytically: slice k holds the coefficients at T_k
    import scipy.linalg as sla
    U = np.eye(drift_full.shape[0], dtype=complex)
    for k in range(len(T) - 1):
        H = drift_full + sum(ref[m][k] * mats[m] for m in range(len(mats)))
        U = sla.expm(-1j * H * (T[k + 1] - T[k])) @ U
    try:
        Ua = np.eye(drift_full.shape[0], dtype=complex)
        for u in p.run_analytically():
            Ua = u.full() @ Ua
    except Exception as e:
        return f"run_analytically raised {type(e).__name__}: {e}"
    if np.abs(Ua - U).max() > 1e-9:
        return f"run_analytically differs from the slice product of the spline values by {np.abs(Ua - U).max():.3e}"
    # the Hamiltonian the solver integrates, at the merged points, against the resampled coefficients
    try:
        qu, _c = p.get_qobjevo(noisy=True)
    except Exception as e:
        return f"get_qobjevo raised {type(e).__name__}: {e}"
    for k, t in enumerate(T):
        inside = flags()["hold"] or all(ch["tlist"][-1] >= t or ch["coeff"][-1] == 0 for ch in arrays)
        if not (inside or full):
            continue
        Hs = qu(float(t)).full()
        Hc = drift_full + sum(C[m][k] * mats[m] for m in range(len(mats)))
        if np.abs(Hs - Hc).max() > 1e-9 * scale:
            return (f"at t={float(t)!r} the operator the solver integrates differs from drift + sum get_full_coeffs * control "
                    f"by {np.abs(Hs - Hc).max():.3e}")
    psi, v = init_state(spec)
    yref = None
    held = flags()["hold"] or all(ch["tlist"][-1] == T[-1] or ch["coeff"][-1] == 0 for ch in arrays)
    if solver and held:
        yref = ref_cubic_state(spec, drift_full, mats, v, T[-1])
        try:
            fin, how, err = solver_final(p, psi, spec.get("dm"), T)
        except Exception as e:
            return f"solver path raised {type(e).__name__}: {e}"
        exp = np.outer(yref, yref.conj()) if spec.get("dm") else yref.reshape(-1, 1)
        if np.abs(fin - exp).max() > 2e-6:
            return f"{how} differs from the evolution under the spline Hamiltonian by {np.abs(fin - exp).max():.3e}"
    # save / reload
    d = tempfile.mkdtemp(prefix="c14-")
    try:
        fn = os.path.join(d, "c.txt")
        try:
            p.save_coeff(fn)
            p2, _l, _d, _m = build_processor(spec)
            p2.read_coeff(fn)
            C2 = np.asarray(p2.get_full_coeffs(), dtype=float)
            T2 = np.asarray(p2.get_full_tlist(), dtype=float)
        except Exception as e:
            return f"save_coeff/read_coeff raised {type(e).__name__}: {e}"
        if T2.shape != T.shape or np.abs(T2 - T).max() > 1e-14 or C2.shape != ref.shape or np.abs(C2 - ref).max() > 1e-9 * scale:
            return "coefficients after save/reload differ from the spline values on the merged grid"
        if yref is not None and cubic_exact_reload(spec):
            fin, how, err = solver_final(p2, psi, spec.get("dm"), T)
            exp = np.outer(yref, yref.conj()) if spec.get("dm") else yref.reshape(-1, 1)
            if np.abs(fin - exp).max() > 2e-6:
                return f"after save/reload {how} differs from the evolution under the spline Hamiltonian by {np.abs(fin - exp).max():.3e}"
    finally:
        shutil.rmtree(d, ignore_errors=True)
    return None


def spline_degree_of_code(n, rng):
    """behavioural extraction: the largest d such that the cubic branch of _fill_coeff reproduces every polynomial of
    degree <= d from n samples at off-grid points (None if it raises)"""
    _fill_coeff = _impl()[2]
    tl = np.array(sorted([0.0, 1.0] + [rng.uniform(0.1, 0.9) for _ in range(max(0, n - 2))]))[:max(n, 0)]
    if n == 1:
        tl = np.array([0.0])
    if n == 0:
        tl = np.array([])
    full = np.array(sorted(set(tl.tolist()) | {0.05, 0.33, 0.61, 0.97}))
    deg = -1
    for d in range(0, 5):
        f = lambda x, d=d: (x + 0.3) ** d
        try:
            out = _fill_coeff(f(tl), tl, full)
        except Exception:
            return None
        if np.abs(out - f(full)).max() > 1e-9:
            break
        deg = d
    return deg


def resolution_slack(spec, mats):
    """What the analytical evolution may differ by from the time-ordered product of the stated Hamiltonian because of structure
    below the resolution tol = 1e-10 of the merged grid (Lean: merged_covers + fill_catchup_near - a point merged away is
    represented by a merged point at most tol below it, the resampled value at T_k is the step function at some time within
    tol of T_k): the resampled Hamiltonian differs from the stated one only near CLUSTERS of channel points (maximal runs of the
    sorted union with consecutive gaps <= 3e-10), for a time of at most (span of the cluster + tol), by at most
    sum_channels 2 max|coeff| ||H_channel||_2.  The bound is  2 x sum_clusters (span + tol) x sum_channels 2 max|c| ||H||  (safety
    factor 2); 0 for a spec without such clusters - the band stays 1e-9 then."""
    pts = sorted({float(t) for ch in spec["chans"] if ch.get("tlist") is not None for t in ch["tlist"]})
    clusters, run = [], None
    for a, b in zip(pts[:-1], pts[1:]):
        if 0 < b - a <= 3e-10:
            run = [run[0], b] if run else [a, b]
        elif run:
            clusters.append(run)
            run = None
    if run:
        clusters.append(run)
    if not clusters:
        return 0.0
    amp = 0.0
    for ch, M in zip(spec["chans"], mats):
        cmax = 1.0 if is_const(ch) else max([abs(float(c)) for c in ch["coeff"]] + [0.0])
        amp += 2.0 * cmax * float(np.linalg.norm(M, 2))
    return 2.0 * sum((hi - lo) + 1e-10 for lo, hi in clusters) * amp


def coeffs_mismatch(spec, T, C, exact=False):
    """get_full_coeffs against the stated coefficients: column k is the value the channel has INSIDE the merged slice
    [T_k, T_k+1) (evaluated at the midpoint: the merged grid contains every breakpoint up to rounding, so the stated
    coefficient is constant there), the last column the value just after the end.  -> None or a description"""
    T = [float(t) for t in T]
    if np.ndim(C) != 2 or np.shape(C) != (len(spec["chans"]), len(T)):
        return f"get_full_coeffs has shape {np.shape(C)} for {len(spec['chans'])} channels and {len(T)} merged points"
    for m, ch in enumerate(spec["chans"]):
        for k in range(len(T)):
            t = inside(T[k], T[k + 1]) if k + 1 < len(T) else T[k] + max(1e-9, 4 * abs(T[k]) * 2.0 ** -52)
            sv = chan_value(ch, t)
            ok = abs(C[m][k] - sv) <= (0 if exact else 1e-12)
            if not ok and k + 1 < len(T) and T[k + 1] - T[k] <= 3e-10:
                # a slice of the order of the resolution: points of the channel within tol of T_k are merged into T_k, the value
                # is the step function at SOME time within tol of T_k (Lean: fill_catchup_near); the slice contributes O(tol)
                ok = any(abs(C[m][k] - chan_value(ch, x)) <= 1e-12 for x in (T[k], T[k] + 1e-10, T[k] - 1e-10))
            if not ok:
                where = (f"on the merged slice [{T[k]!r}, {T[k + 1]!r})" if k + 1 < len(T) else f"at the end point {T[k]!r}")
                return (f"get_full_coeffs: channel {m} {where} is {float(C[m][k])!r}, its stated coefficient there is {float(sv)!r}"
                        + (f" (own grid {ch['tlist']!r})" if ch.get("tlist") is not None and len(ch["tlist"]) <= 8 else ""))
    return None


def solver_operator_mismatch(p, spec, T, drift_full, mats):
    """the operator the solver integrates (get_qobjevo), sampled inside every merged slice, against
    drift + sum stated coefficient * control.  -> None or a description"""
    try:
        qu, _c = p.get_qobjevo(noisy=True)
    except Exception as e:
        return f"get_qobjevo raised {type(e).__name__}: {e}"
    T = [float(t) for t in T]
    for a, b in zip(T[:-1], T[1:]):
        t = 0.5 * (a + b)
        if not a < t < b:
            continue                      # no float strictly inside the slice
        H = drift_full + sum(chan_value(ch, t) * M for ch, M in zip(spec["chans"], mats))
        err = float(np.abs(qu(t).full() - H).max())
        if err > 1e-9:
            return (f"the operator handed to the solver at t={t!r} (inside the merged slice [{a!r}, {b!r})) differs from "
                    f"drift + sum coefficient * control by {err:.3e}")
    return None


# ----------------------------------------------------------------------------------------------
# processor HISTORIES: one Processor object is evolved, edited through its public API, evolved again, ...
# state (the fields the processor STATES at a moment, kept by the harness independently of the object):
#   {"dims", "ctor", "via": "add_pulse" | "add_control", "seed", "dm", "drifts": [{"targets", "mseed"}],
#    "chans": [{"label", "targets", "mseed", "tlist": [...] | None, "coeff": [...] | bool}]}
# the operator of a channel / drift is herm(default_rng(mseed)) on its targets (in that order)
HIST_DIMS = [[2, 2], [2, 2, 2], [2, 3, 2], [3, 3], [2, 2, 3], [3, 2, 3], [2, 3]]
HIST_PROBES = ["coeffs", "analytic", "controls", "qobjevo", "qobjevo_ideal", "solver", "solver_ideal", "reload"]


def state_matrix(dims, targets, mseed):
    return herm(np.random.default_rng(mseed), int(np.prod([dims[i] for i in targets])))


def state_qobj(dims, targets, mseed):
    qutip = _impl()[0]
    return qutip.Qobj(state_matrix(dims, targets, mseed), dims=[[dims[i] for i in targets]] * 2)


def state_mats(state):
    dims = state["dims"]
    drift_full = np.zeros((int(np.prod(dims)),) * 2, dtype=complex)
    for d in state["drifts"]:
        drift_full = drift_full + embed(state_matrix(dims, d["targets"], d["mseed"]), d["targets"], dims)
    return drift_full, [embed(state_matrix(dims, c["targets"], c["mseed"]), c["targets"], dims) for c in state["chans"]]


def _pulse_of(state, ch):
    Pulse = _impl()[3]
    return Pulse(state_qobj(state["dims"], ch["targets"], ch["mseed"]), list(ch["targets"]),
                 tlist=None if ch.get("tlist") is None else as_container(ch["tlist"], ch.get("tkind"), what="tlist"),
                 coeff=(bool(ch["coeff"]) if is_const(ch) else as_container(ch["coeff"], ch.get("ckind"), what="coefficient array")),
                 label=ch["label"])


def build_state_processor(state, via=None):
    """a FRESH processor holding exactly the fields of `state`"""
    dims = state["dims"]
    p = new_processor(dims, state.get("ctor", "both"))
    for d in state["drifts"]:
        p.add_drift(state_qobj(dims, d["targets"], d["mseed"]), list(d["targets"]))
    if (via or state.get("via")) == "add_control":
        for ch in state["chans"]:
            p.add_control(state_qobj(dims, ch["targets"], ch["mseed"]), list(ch["targets"]), label=ch["label"])
        load_pulses(p, [ch["label"] for ch in state["chans"]], state)
    else:
        for ch in state["chans"]:
            p.add_pulse(_pulse_of(state, ch))
    return p


def edit_text(e):
    op = e["op"]
    if op == "retarget":
        return f"pulses[{e['chan']}].targets = {e['targets'][0] if e.get('scalar') else e['targets']}"
    if op == "qobj":
        return f"pulses[{e['chan']}].qobj = <another operator>"
    if op == "coeff":
        return f"pulses[{e['chan']}].coeff = {e['coeff']}"
    if op == "tlist":
        return f"pulses[{e['chan']}].tlist, .coeff = {e['tlist']}, {e['coeff']}"
    if op == "add":
        return f"add_pulse(Pulse(<operator>, {e['chan']['targets']}, tlist={e['chan']['tlist']}, coeff={e['chan']['coeff']}, label={e['chan']['label']!r}))"
    if op == "remove":
        return f"remove_pulse({'indices=' + str(e['chan']) if e.get('by') != 'label' else 'label=' + repr(e['label'])})"
    if op == "drift":
        return f"add_drift(<operator>, {e['drift']['targets']})"
    return str(e)


def apply_edit(p, state, e):
    """one edit through the public API of Processor / Pulse, and the same edit on the stated fields"""
    Pulse = _impl()[3]
    dims = state["dims"]
    op = e["op"]
    if op == "retarget":
        p.pulses[e["chan"]].targets = e["targets"][0] if e.get("scalar") else list(e["targets"])
        state["chans"][e["chan"]]["targets"] = list(e["targets"])
    elif op == "qobj":
        ch = state["chans"][e["chan"]]
        ch["mseed"] = e["mseed"]
        p.pulses[e["chan"]].qobj = state_qobj(dims, ch["targets"], ch["mseed"])
    elif op == "coeff":
        p.pulses[e["chan"]].coeff = (bool(e["coeff"]) if isinstance(e["coeff"], bool)
                                     else as_container(e["coeff"], None, what="coefficient array"))
        state["chans"][e["chan"]]["coeff"] = e["coeff"]
    elif op == "tlist":
        p.pulses[e["chan"]].tlist = as_container(e["tlist"], None, what="tlist")
        p.pulses[e["chan"]].coeff = as_container(e["coeff"], None, what="coefficient array")
        state["chans"][e["chan"]].update(tlist=list(e["tlist"]), coeff=list(e["coeff"]))
    elif op == "add":
        ch = dict(e["chan"])
        p.add_pulse(_pulse_of(state, ch))
        state["chans"].append(ch)
    elif op == "remove":
        if e.get("by") == "label":
            p.remove_pulse(label=e["label"])
        else:
            p.remove_pulse(indices=e["chan"])
        del state["chans"][e["chan"]]
    elif op == "drift":
        d = dict(e["drift"])
        p.add_drift(state_qobj(dims, d["targets"], d["mseed"]), list(d["targets"]))
        state["drifts"].append(d)
    else:
        raise ValueError("unknown edit " + str(op))


def _rand_step_grid(rng):
    n = rng.randint(2, 5)
    tl = [0.0]
    for _ in range(n - 1):
        tl.append(tl[-1] + rng.choice([rng.uniform(0.05, 0.8), rng.randint(1, 6) / 8]))
    return tl, [rng.choice([-1, 1]) * rng.uniform(0.2, 2.0) for _ in range(n - 1)]


def _rand_targets(rng, dims, k=None):
    k = k or rng.randint(1, min(2, len(dims)))
    return rng.sample(range(len(dims)), k)


def _retarget_options(dims, targets):
    import itertools
    want = [dims[i] for i in targets]
    return [list(t) for t in itertools.permutations(range(len(dims)), len(targets))
            if [dims[i] for i in t] == want and list(t) != list(targets)]


def rand_edit(rng, state, counter, prefer=None):
    """one random edit applicable to `state` (at least one array channel with a grid always remains)"""
    dims = state["dims"]
    arrays = [i for i, c in enumerate(state["chans"]) if not is_const(c)]
    for _ in range(20):
        op = prefer or rng.choice(["retarget", "retarget", "retarget", "qobj", "coeff", "tlist", "add", "remove", "drift"])
        prefer = None
        i = rng.randrange(len(state["chans"]))
        ch = state["chans"][i]
        if op == "retarget":
            opts = _retarget_options(dims, ch["targets"])
            if not opts:
                continue
            t = rng.choice(opts)
            return {"op": "retarget", "chan": i, "targets": t, "scalar": len(t) == 1 and rng.random() < 0.5}
        if op == "qobj":
            return {"op": "qobj", "chan": i, "mseed": rng.randrange(2**31)}
        if op == "coeff":
            if is_const(ch):
                return {"op": "coeff", "chan": i, "coeff": not ch["coeff"]}
            if len(arrays) > 1 and rng.random() < 0.15:
                return {"op": "coeff", "chan": i, "coeff": True}
            return {"op": "coeff", "chan": i, "coeff": [rng.choice([-1, 1]) * rng.uniform(0.2, 2.0) for _ in ch["coeff"]]}
        if op == "tlist":
            tl, cs = _rand_step_grid(rng)
            return {"op": "tlist", "chan": i, "tlist": tl, "coeff": cs}
        if op == "add":
            if len(state["chans"]) >= 4:
                continue
            tl, cs = _rand_step_grid(rng)
            counter[0] += 1
            return {"op": "add", "chan": {"label": f"q{counter[0]}", "targets": _rand_targets(rng, dims), "mseed": rng.randrange(2**31),
                                          "tlist": tl, "coeff": cs}}
        if op == "remove":
            if len(state["chans"]) < 2 or arrays == [i]:
                continue
            return {"op": "remove", "chan": i, "label": ch["label"], "by": rng.choice(["index", "label"])}
        if op == "drift":
            if len(state["drifts"]) >= 2:
                continue
            return {"op": "drift", "drift": {"targets": _rand_targets(rng, dims), "mseed": rng.randrange(2**31)}}
    return {"op": "qobj", "chan": 0, "mseed": rng.randrange(2**31)}


def rand_probes(rng, final=False):
    cheap = ["coeffs", "analytic", "controls", "qobjevo"]
    if final:
        pr = list(cheap)
    else:
        pr = [x for x in cheap if rng.random() < 0.7] or [rng.choice(cheap)]
    for name, prob in (("qobjevo_ideal", 0.3), ("solver_ideal", 0.2), ("solver", 0.4), ("reload", 0.3)):
        if rng.random() < prob:
            pr.append(name)
    rng.shuffle(pr)
    return pr


def make_history(rng, nsteps=None, ctor=None):
    """witness of kind `phistory`: a base processor and 2-4 steps; every step after the first edits the SAME processor
    object through its public API (1-2 edits, re-targeting preferred), then evolves / inspects it"""
    dims = list(rng.choice(HIST_DIMS))
    chans = []
    for k in range(rng.randint(1, 3)):
        tl, cs = _rand_step_grid(rng)
        if flags()["zl"] and rng.random() < 0.3:      # full-length form: the last entry has no effect (and must survive every call)
            cs = cs + [rng.choice([-1, 1]) * rng.uniform(0.2, 2.0)]
        chans.append({"label": f"p{k}", "targets": _rand_targets(rng, dims), "mseed": rng.randrange(2**31), "tlist": tl, "coeff": cs})
    if rng.random() < 0.2:
        chans.append({"label": "k", "targets": _rand_targets(rng, dims), "mseed": rng.randrange(2**31),
                      "tlist": None if rng.random() < 0.5 else [0.0, rng.uniform(0.2, 0.9)], "coeff": True})
    state = {"dims": dims, "ctor": ctor or rng.choice(ctor_forms(dims)), "via": rng.choice(["add_pulse", "add_pulse", "add_control"]),
             "seed": rng.randrange(2**31), "dm": rng.random() < 0.3,
             "drifts": [{"targets": _rand_targets(rng, dims), "mseed": rng.randrange(2**31)}] if rng.random() < 0.6 else [],
             "chans": chans}
    import copy
    shadow, counter = copy.deepcopy(state), [0]
    nsteps = nsteps or rng.randint(2, 4)
    steps = [{"edits": [], "probes": rand_probes(rng)}]
    for k in range(1, nsteps):
        edits = []
        for j in range(rng.randint(1, 2)):
            e = rand_edit(rng, shadow, counter, prefer=("retarget" if (k == 1 and j == 0 and rng.random() < 0.6) else None))
            _apply_state_only(shadow, e)
            edits.append(e)
        steps.append({"edits": edits, "probes": rand_probes(rng, final=(k == nsteps - 1))})
    return {"kind": "phistory", "state": state, "steps": steps}


class _NoProc:
    """stands in for the processor when only the stated fields are edited"""
    class _P:
        targets = qobj = coeff = tlist = None

    def __init__(self, n):
        self.pulses = [self._P() for _ in range(n + 8)]

    def add_pulse(self, *_a, **_k):
        pass

    def remove_pulse(self, *_a, **_k):
        pass

    def add_drift(self, *_a, **_k):
        pass


def _apply_state_only(state, e):
    if e["op"] == "add":
        state["chans"].append(dict(e["chan"]))
    elif e["op"] == "qobj":
        state["chans"][e["chan"]]["mseed"] = e["mseed"]
    else:
        apply_edit(_NoProc(len(state["chans"])), state, e)


def _product(us, n):
    U = np.eye(n, dtype=complex)
    for u in us:
        U = u.full() @ U
    return U


def probe_state(p, state, probes, fresh=True):
    """the processor object `p` against the fields it states NOW (`state`): every probe is compared with the independent
    expm product / embedded operators of the current fields; then with a fresh processor built from the current fields.
    -> None or a description of the first mismatch"""
    import copy
    qutip = _impl()[0]
    drift_full, mats = state_mats(state)
    grid = union_grid(state)
    Uref = reference_U(grid, state, drift_full, mats)
    n = Uref.shape[0]
    psi, v = init_state(state)
    opts = {"method": "dop853", "atol": 1e-10, "rtol": 1e-10, "nsteps": 100000}
    T = None
    for pr in probes:
        try:
            if pr == "coeffs":
                T, C = p.get_full_tlist(), p.get_full_coeffs()
                Tl = [float(t) for t in T]
                if any(min(abs(g - t) for t in Tl) > 1.0000001e-10 for g in grid) or any(min(abs(g - t) for g in grid) > 0 for t in Tl):
                    return f"get_full_tlist {Tl!r} does not represent the breakpoints {grid!r} of the current pulses"
                d = coeffs_mismatch(state, T, C)
                if d:
                    return d
            elif pr == "analytic":
                err = float(np.abs(_product(p.run_analytically(), n) - Uref).max())
                if err > 1e-9 + resolution_slack(state, mats):
                    return f"run_analytically differs from the time-ordered product of the CURRENT stated Hamiltonian by {err:.3e}"
            elif pr == "controls":
                cs = p.controls
                if len(cs) != len(mats):
                    return f"Processor.controls has {len(cs)} operators for {len(mats)} pulses"
                for k, (a, b) in enumerate(zip(cs, mats)):
                    err = float(np.abs(a.full() - b).max())
                    if err > 1e-12:
                        return (f"Processor.controls[{k}] is not the operator of pulse {state['chans'][k]['label']!r} on its current "
                                f"targets {state['chans'][k]['targets']} (max deviation {err:.3e})")
            elif pr in ("qobjevo", "qobjevo_ideal"):
                noisy = pr == "qobjevo"
                qu, _c = p.get_qobjevo(noisy=noisy)
                if noisy or not state["drifts"]:       # noisy=False leaves the drift out (not judged): only filled / called
                    for a, b in zip(grid[:-1], grid[1:]):
                        t = 0.5 * (a + b)
                        if b - a <= 1.05e-10 or not a < t < b:
                            continue
                        H = drift_full + sum(chan_value(ch, t) * M for ch, M in zip(state["chans"], mats))
                        err = float(np.abs(qu(t).full() - H).max())
                        if err > 1e-9:
                            return (f"get_qobjevo(noisy={noisy}) at t={t!r} differs from drift + sum coefficient * control of the "
                                    f"CURRENT fields by {err:.3e}")
            elif pr in ("solver", "solver_ideal"):
                init = psi * psi.dag() if state.get("dm") else psi
                kw = {} if pr == "solver" else {"noisy": False}
                r = p.run_state(init, options=dict(opts), **kw)
                if pr == "solver" or not state["drifts"]:
                    exp = Uref @ v
                    exp = np.outer(exp, exp.conj()) if state.get("dm") else exp.reshape(-1, 1)
                    err = float(np.abs(r.states[-1].full() - exp).max())
                    if err > 2e-6:
                        return f"run_state({'noisy=False' if kw else ''}) differs from the time-ordered product of the CURRENT stated Hamiltonian by {err:.3e}"
            elif pr == "reload":
                dd = tempfile.mkdtemp(prefix="c14-")
                try:
                    fn = os.path.join(dd, "c.txt")
                    p.save_coeff(fn)
                    p2 = build_state_processor(state, via="add_control")
                    p2.read_coeff(fn)
                    err = float(np.abs(_product(p2.run_analytically(), n) - Uref).max())
                    if err > 1e-9 + resolution_slack(state, mats):
                        return f"after save_coeff / read_coeff run_analytically differs from the time-ordered product by {err:.3e}"
                finally:
                    shutil.rmtree(dd, ignore_errors=True)
        except Exception as e:
            return f"{pr}: the implementation raised {type(e).__name__}: {str(e)[:120]}"
        d = handed_after(pr)
        if d:
            return d
    if fresh:
        # the same fields on a fresh processor: bit-exact grid / coefficients, same propagators
        try:
            q = build_state_processor(state)
            Tp, Tq = p.get_full_tlist(), q.get_full_tlist()
            Cp, Cq = np.asarray(p.get_full_coeffs()), np.asarray(q.get_full_coeffs())
            if not (np.array_equal(Tp, Tq) and np.array_equal(Cp, Cq)):
                return "get_full_tlist / get_full_coeffs differ from those of a fresh processor built from the current fields"
            Up, Uq = p.run_analytically(), q.run_analytically()
            if len(Up) != len(Uq) or any(np.abs(a.full() - b.full()).max() > 1e-12 for a, b in zip(Up, Uq)):
                err = float(np.abs(_product(Up, n) - _product(Uq, n)).max())
                return (f"run_analytically differs from that of a FRESH processor built from the current fields by {err:.3e} "
                        f"(the fresh one differs from the time-ordered product by {float(np.abs(_product(Uq, n) - Uref).max()):.1e})")
        except Exception as e:
            return f"comparison with a fresh processor: the implementation raised {type(e).__name__}: {str(e)[:120]}"
    return None


def run_history(w, on_step=None):
    """witness kind `phistory` on the real code.  `on_step(k, p, state)` may add checks (the model, in the correspondence).
    -> (fails, detail)"""
    import copy
    state = copy.deepcopy(w["state"])
    handed_reset()
    try:
        p = build_state_processor(state)
    except Exception as e:
        return True, f"{ctor_text(state['dims'], state.get('ctor', 'both'))} / adding the pulses raises {type(e).__name__}: {str(e)[:120]}"
    done = []
    for k, st in enumerate(w["steps"]):
        try:
            for e in st["edits"]:
                apply_edit(p, state, e)
                done.append(edit_text(e))
        except Exception as e2:
            return True, f"step {k + 1}: the edit {done[-1] if done else ''} raises {type(e2).__name__}: {str(e2)[:120]}"
        d = probe_state(p, state, st["probes"])
        if d is None and on_step is not None:
            d = on_step(k, p, state)
        if d:
            hist = "; ".join(f"step {j + 1}: " + (", ".join(edit_text(e) for e in s["edits"]) or "-") + " then " + "/".join(s["probes"])
                             for j, s in enumerate(w["steps"][:k + 1]))
            return True, (f"history on ONE {ctor_text(state['dims'], state.get('ctor', 'both'))} object, step {k + 1} of {len(w['steps'])}: {d}  "
                          f"[history: {hist}]")
    return False, f"all {len(w['steps'])} steps agree with the time-ordered product of the fields stated at that moment and with a fresh processor"


# the history of the seeded-change report: evolve, move both pulses to other subsystems, evolve again
RETARGET_WITNESS = {"kind": "phistory", "state": {
    "dims": [2, 3, 2], "ctor": "both", "via": "add_pulse", "seed": 31, "dm": False,
    "drifts": [{"targets": [1], "mseed": 5}],
    "chans": [{"label": "x", "targets": [0], "mseed": 6, "tlist": [0.0, 0.13, 0.41, 0.7], "coeff": [1.3, -0.8, 0.6]},
              {"label": "zy", "targets": [0, 2], "mseed": 7, "tlist": [0.0, 0.25, 0.33, 0.9, 1.2], "coeff": [0.5, 1.9, -1.1, 0.7]}]},
    "steps": [{"edits": [], "probes": ["analytic", "controls", "solver"]},
              {"edits": [{"op": "retarget", "chan": 0, "targets": [2], "scalar": True}, {"op": "retarget", "chan": 1, "targets": [2, 0]}],
               "probes": ["controls", "analytic", "coeffs", "qobjevo", "solver"]}]}


def own_step_below_tol(w):
    """class `grid-step-below-tol` (known finding): a step channel whose OWN grid has two consecutive points not more than
    tol = 1e-10 apart (a slot shorter than the resolution of the merged grid).  The theorems exclude it by hypothesis (SepAll
    tol: distinct grid points more than tol apart); get_full_tlist merges the second point away and _fill_coeff, whose index
    advances at most one slot per merged point, then reads every later coefficient of the channel one slot off.  Decided on the
    INPUT (the grids), not on the code."""
    spec = w.get("spec") if w.get("kind") in ("evolution", "cubic", "run_state") else (w.get("state") if w.get("kind") == "phistory" else None)
    if spec is None:
        return False
    chans = list(spec["chans"])
    if w.get("kind") == "phistory":
        for st in w["steps"]:
            for e in st["edits"]:
                if e["op"] == "tlist":
                    chans.append({"tlist": e["tlist"], "coeff": e["coeff"]})
                elif e["op"] == "add":
                    chans.append(e["chan"])
    for ch in chans:
        tl = ch.get("tlist")
        if tl is not None and not is_const(ch) and any(0 < b - a <= 1.05e-10 for a, b in zip(tl[:-1], tl[1:])):
            return True
    return False


# channel a has a slot of 8e-11 (e.g. the pulse of a rotation by 1e-9 at strength 1) between two ordinary ones
TINY_STEP_WITNESS = {"kind": "evolution", "spec": {
    "dims": [2], "seed": 61, "drift": None, "dm": False,
    "chans": [{"targets": [0], "tlist": [0.0, 0.5, 0.5 + 8e-11, 1.0], "coeff": [1.0, 0.7, -0.4]},
              {"targets": [0], "tlist": [0.0, 1.0], "coeff": [0.3]}]}}


def _dedup(points, tol, kept_rule):
    out = [points[0]]
    prev = points[0]
    for x in points[1:]:
        if x - prev > tol:
            out.append(x)
            prev = x
        elif not kept_rule:
            prev = x
    return out


def chained_duplicates(w):
    """class `chained-near-duplicates`: in the sorted union of the channel points some point is within tol = 1e-10 of its
    predecessor but more than tol above the last point a de-duplication that compares with the last KEPT point keeps (a chain
    p, p + 0.7 tol, p + 1.4 tol; a slot shorter than tol that starts just after another channel's point).  get_full_tlist as
    found drops it, and the channel keeps its old coefficient over the whole next merged slot.  Decided on the INPUT."""
    spec = w.get("spec") if w.get("kind") in ("evolution", "cubic", "run_state") else None
    if spec is None:
        return False
    pts = sorted({float(t) for ch in spec["chans"] if ch.get("tlist") is not None for t in ch["tlist"]})
    if len(pts) < 3:
        return False
    return _dedup(pts, 1e-10, True) != _dedup(pts, 1e-10, False)


def make_chain_spec(rng):
    """2-3 step channels with a chain of near-duplicates around a point p: p, p + a tol, p + b tol with 0.3 <= a, b - a <= 0.9
    and b >= 1.1 (distinct channels, or two of them in one channel: a slot shorter than tol that starts just after another
    channel's point); the coefficients change at every point of the chain"""
    nsub = rng.randint(1, 2)
    dims = [rng.choice([2, 3]) for _ in range(nsub)]
    tol = 1e-10
    p0 = rng.choice([0.5, 1.0, 1.75, 3.0]) * rng.choice([1.0, 1.0, 8.0])
    a = rng.uniform(0.3, 0.9)
    b = a + rng.uniform(max(0.3, 1.1 - a), 0.9)
    chain = [p0, p0 + a * tol, p0 + b * tol]
    if rng.random() < 0.3:
        chain.append(chain[-1] + rng.uniform(0.3, 0.9) * tol)
    end = p0 + rng.choice([1.0, 2.5])
    owner = [rng.randrange(3) for _ in chain]
    owner[0], owner[1] = 0, rng.choice([1, 1, 2])
    if rng.random() < 0.5:
        owner[2] = owner[1]                       # a sub-resolution slot of one channel right after channel 0's point
    chans = []
    for k in sorted(set(owner)):
        mine = [x for x, o in zip(chain, owner) if o == k]
        before = sorted(rng.uniform(0.1, 0.9) * p0 for _ in range(rng.randint(0, 1)))
        tl = [0.0] + before + mine + [end + 0.25 * k]
        cs, last = [], 0.0
        for _ in range(len(tl) - 1):
            c = last
            while abs(c - last) < 0.4:
                c = rng.choice([-1, 1]) * rng.uniform(0.3, 2.0)
            cs.append(c)
            last = c
        chans.append({"targets": rng.sample(range(nsub), rng.randint(1, min(2, nsub))), "tlist": tl, "coeff": cs})
    return {"dims": dims, "seed": rng.randrange(2**31), "chans": chans, "dm": rng.random() < 0.3,
            "drift": {"targets": rng.sample(range(nsub), 1)} if rng.random() < 0.5 else None}


# (a) three channels with the points 1, 1 + 0.7e-10, 1 + 1.4e-10; (b) a slot of 0.8e-10 that starts 0.5e-10 after another
# channel's point
CHAIN_WITNESS = {"kind": "evolution", "spec": {"dims": [2], "seed": 3, "drift": None, "dm": False, "chans": [
    {"targets": [0], "tlist": [0.0, 1.0, 2.0], "coeff": [0.5, -0.8]},
    {"targets": [0], "tlist": [0.0, 1.0 + 0.7e-10, 2.0], "coeff": [1.1, 0.3]},
    {"targets": [0], "tlist": [0.0, 1.0 + 1.4e-10, 2.0], "coeff": [-0.9, 1.7]}]}}
CHAIN_WITNESS_2 = {"kind": "evolution", "spec": {"dims": [2], "seed": 4, "drift": None, "dm": False, "chans": [
    {"targets": [0], "tlist": [0.0, 1.0, 2.0], "coeff": [0.5, -0.8]},
    {"targets": [0], "tlist": [0.0, 1.0 + 0.5e-10, 1.0 + 1.3e-10, 2.0], "coeff": [1.1, 4.0, 0.3]}]}}


def class_recorded(cls="grid-step-below-tol"):
    from vlib.core import load_findings
    return any(f.get("status") == "known" and f.get("class") == cls for f in load_findings("C14"))


def make_tiny_step_spec(rng):
    spec = make_spec(rng, full_prob=0.0, const=False)
    ch = rng.choice(spec["chans"])
    k = rng.randrange(1, len(ch["tlist"]))
    t = ch["tlist"][k - 1] + (ch["tlist"][k] - ch["tlist"][k - 1]) * rng.uniform(0.2, 0.8)
    ch["tlist"][k:k] = [t, t + rng.choice([8e-11, 3e-11, 1e-12])]
    ch["coeff"][k - 1:k - 1] = [rng.uniform(-2, 2), rng.uniform(-2, 2)]
    return spec


def history_family():
    """systematic: for every way of touching the stored pulses first (run_analytically, controls, get_qobjevo with and
    without noise, run_state with and without noise, save_coeff, nothing) x every kind of edit, then every cheap probe and
    the solver"""
    import copy
    base = {"dims": [2, 3, 2], "ctor": "both", "via": "add_pulse", "seed": 41, "dm": False,
            "drifts": [{"targets": [1], "mseed": 15}],
            "chans": [{"label": "a", "targets": [0], "mseed": 16, "tlist": [0.0, 0.2, 0.55, 0.9], "coeff": [1.1, -0.7, 0.4]},
                      {"label": "b", "targets": [2, 0], "mseed": 17, "tlist": [0.0, 0.35, 1.1], "coeff": [0.6, -1.4]}]}
    edits = [[{"op": "retarget", "chan": 0, "targets": [2], "scalar": False}],
             [{"op": "retarget", "chan": 1, "targets": [0, 2], "scalar": False}],
             [{"op": "qobj", "chan": 1, "mseed": 99}],
             [{"op": "coeff", "chan": 0, "coeff": [0.3, 0.9, -1.2]}],
             [{"op": "tlist", "chan": 1, "tlist": [0.0, 0.5, 0.8, 1.4], "coeff": [0.2, 1.3, -0.6]}],
             [{"op": "add", "chan": {"label": "c", "targets": [1], "mseed": 18, "tlist": [0.0, 0.45, 0.7], "coeff": [0.8, -0.5]}}],
             [{"op": "remove", "chan": 0, "label": "a", "by": "index"}],
             [{"op": "remove", "chan": 1, "label": "b", "by": "label"}],
             [{"op": "drift", "drift": {"targets": [0, 2], "mseed": 19}}]]
    firsts = [["analytic"], ["controls"], ["qobjevo_ideal"], ["solver_ideal"], ["qobjevo"], ["solver"], ["reload"], ["coeffs"]]
    out = []
    for i, ed in enumerate(edits):
        for j, fp in enumerate(firsts):
            if (i + j) % 2 and ed[0]["op"] != "retarget":        # every edit kind after every other first probe; re-targeting after all
                continue
            out.append({"kind": "phistory", "state": copy.deepcopy(base),
                        "steps": [{"edits": [], "probes": list(fp)},
                                  {"edits": copy.deepcopy(ed), "probes": ["controls", "coeffs", "qobjevo", "analytic"] + (["solver"] if j % 4 == 0 else [])}]})
    return out


def constructor_witnesses():
    """one small evolution per documented constructor form (dims-only only where Model.__init__ supports it)"""
    out = []
    for dims in ([2, 3], [2, 2]):
        for form in ctor_forms(dims):
            out.append({"kind": "evolution", "spec": {
                "dims": list(dims), "ctor": form, "seed": 51, "drift": {"targets": [1]}, "dm": False,
                "chans": [{"targets": [0], "tlist": [0.0, 0.4, 1.0], "coeff": [0.7, -1.1]},
                          {"targets": [1, 0], "tlist": [0.0, 0.25, 0.6], "coeff": [-0.5, 0.9]}]}})
    return out


DIMS_ONLY_WITNESS = {"kind": "evolution", "spec": {
    "dims": [2, 3], "ctor": "dims", "seed": 51, "drift": {"targets": [1]}, "dm": False,
    "chans": [{"targets": [0], "tlist": [0.0, 0.4, 1.0], "coeff": [0.7, -1.1]},
              {"targets": [1, 0], "tlist": [0.0, 0.25, 0.6], "coeff": [-0.5, 0.9]}]}}


def handed_after(call):
    d = handed_changed()
    return None if d is None else f"after {call}: {d}"


PRE_CALLS = ["qobjevo_ideal", "qobjevo", "solver_ideal", "solver"]


def pre_calls(p, spec):
    """spec["pre"]: calls of the solver path made before anything else on the processor -> None or a description"""
    for c in spec.get("pre") or []:
        try:
            if c in ("qobjevo_ideal", "qobjevo"):
                p.get_qobjevo(noisy=(c == "qobjevo"))
            else:
                psi, _v = init_state(spec)
                init = psi * psi.dag() if spec.get("dm") else psi
                kw = {"noisy": False} if c == "solver_ideal" else {}
                p.run_state(init, options={"method": "dop853", "atol": 1e-8, "rtol": 1e-8, "nsteps": 100000}, **kw)
        except Exception as e:
            return f"{c} (first call on the processor) raised {type(e).__name__}: {str(e)[:120]}"
        d = handed_after({"qobjevo_ideal": "get_qobjevo(noisy=False)", "qobjevo": "get_qobjevo(noisy=True)",
                          "solver_ideal": "run_state(noisy=False)", "solver": "run_state()"}[c] + " as the first call")
        if d:
            return d
    return None


def make_shared_spec(rng):
    """one float64 array OBJECT as the coefficient of two or three channels: a channel whose grid has as many points as the
    array has entries (full-length form: the last entry has no effect) and a channel with one point more (short form: the last
    entry is the value of its last slot); sometimes also one tlist object shared by two channels; sometimes the solver path is
    called first"""
    nsub = rng.randint(1, 2)
    dims = [rng.choice([2, 3]) for _ in range(nsub)]
    m = rng.randint(2, 4)
    amp = [rng.choice([-1, 1]) * rng.uniform(0.3, 2.0) for _ in range(m)]
    def grid(n):
        tl = [0.0]
        for _ in range(n - 1):
            tl.append(tl[-1] + rng.choice([rng.uniform(0.1, 0.8), rng.randint(1, 6) / 8]))
        return tl
    full = bool(flags()["zl"])              # tree as found before fixes/C14-2: a non-zero last entry is excluded by hypothesis
    forms = [m if full else m + 1, m + 1]
    if rng.random() < 0.4:
        forms.append(rng.choice([m, m + 1]) if full else m + 1)
    rng.shuffle(forms)
    chans = [{"targets": rng.sample(range(nsub), rng.randint(1, min(2, nsub))), "tlist": grid(n), "coeff": list(amp), "cshare": 0}
             for n in forms]
    if rng.random() < 0.4:                   # an independent channel, or one that shares its tlist OBJECT with the first
        c0 = chans[0]
        if rng.random() < 0.5:
            c0["tshare"] = 0
            chans.append({"targets": rng.sample(range(nsub), 1), "tlist": list(c0["tlist"]), "tshare": 0,
                          "coeff": [rng.uniform(-2, 2) for _ in range(len(c0["tlist"]) - 1)]})
        else:
            tl = grid(rng.randint(2, 4))
            chans.append({"targets": rng.sample(range(nsub), 1), "tlist": tl, "coeff": [rng.uniform(-2, 2) for _ in range(len(tl) - 1)]})
    spec = {"dims": dims, "seed": rng.randrange(2**31), "chans": chans, "dm": rng.random() < 0.3,
            "drift": {"targets": rng.sample(range(nsub), 1)} if rng.random() < 0.5 else None}
    if rng.random() < 0.4:
        spec["pre"] = [rng.choice(PRE_CALLS)]
    return spec


def shared_tags(spec):
    t = ["shared array objects"]
    if any(c.get("tshare") is not None for c in spec["chans"]):
        t.append("shared tlist object")
    forms = {("full-length" if len(c["coeff"]) == len(c["tlist"]) else "short") for c in spec["chans"] if c.get("cshare") is not None}
    t.append("shared coefficient: " + "+".join(sorted(forms)))
    if spec.get("pre"):
        t.append("solver path first: " + spec["pre"][0])
    return t


# one amplitude array for both drives: grid of 3 points (full-length form) and of 4 points (short form)
SHARED_WITNESS = {"kind": "evolution", "spec": {
    "dims": [2, 2], "seed": 91, "drift": {"targets": [0, 1]}, "dm": False,
    "chans": [{"targets": [0], "tlist": [0.0, 0.4, 1.0], "coeff": [0.9, -0.5, 1.3], "cshare": 0},
              {"targets": [1], "tlist": [0.0, 0.3, 0.7, 1.2], "coeff": [0.9, -0.5, 1.3], "cshare": 0}]}}
# a full-length coefficient; get_qobjevo(noisy=False) is the first call on the processor
SOLVER_FIRST_WITNESS = {"kind": "evolution", "spec": {
    "dims": [2], "seed": 92, "drift": None, "dm": False, "pre": ["qobjevo_ideal", "solver_ideal"],
    "chans": [{"targets": [0], "tlist": [0.0, 0.5, 1.25], "coeff": [0.8, -1.1, 0.6]},
              {"targets": [0], "tlist": [0.0, 0.75, 1.0, 1.5], "coeff": [0.4, 0.9, -0.3]}]}}


LEAK_WITNESS = {"kind": "evolution", "spec": {
    "dims": [2], "seed": 1, "drift": None, "dm": False,
    "chans": [{"targets": [0], "tlist": [0.0, 1.0], "coeff": [2.0, 0.75]},
              {"targets": [0], "tlist": [0.0, 1.5, 2.0], "coeff": [0.5, 0.25]}]}}
# two step channels that share the breakpoint 0.3 and the end 0.7 as real numbers: one grid accumulated (0.1 + 0.2 + 0.4 =
# 0.7000000000000001), one typed in; the channel with the (bitwise) smaller end has a non-zero last coefficient
ROUNDING_WITNESS = {"kind": "evolution", "spec": {
    "dims": [2, 2], "seed": 7, "drift": {"targets": [0, 1]}, "dm": False,
    "chans": [{"targets": [0], "tlist": [0.0, 0.1, 0.1 + 0.2, 0.1 + 0.2 + 0.4], "coeff": [0.9, -1.3, 0.6]},
              {"targets": [1], "tlist": [0.0, 0.3, 0.7], "coeff": [1.7, -0.8]}]}}
ROUNDING_WITNESS_2 = {"kind": "evolution", "spec": {
    "dims": [2], "seed": 8, "drift": None, "dm": True,
    "chans": [{"targets": [0], "tlist": [0.0, 0.6], "coeff": [1.1]},
              {"targets": [0], "tlist": [0.0, 2 * 0.1, 6 * 0.1], "coeff": [-0.7, 0.45]},
              {"targets": [0], "tlist": [0.0, 0.1, 0.1 + 0.2], "coeff": [0.5, -1.25]}]}}
# a constant pulse with a time range of its own that ends before the evolution does (Pulse docstring), step_func
CONST_WITNESS = {"kind": "evolution", "spec": {
    "dims": [2, 2], "seed": 9, "drift": {"targets": [0, 1]}, "dm": False,
    "chans": [{"targets": [0], "tlist": [0.0, 0.35, 0.8, 1.3], "coeff": [0.9, -1.3, 0.6]},
              {"targets": [1], "tlist": [0.0, 0.25, 0.5], "coeff": True}]}}
# two channels with the points 20.0 and 20.0 + 1e-9 (ten times the tolerance of the merged grid apart), coefficients of the
# order 1/20 that change at both points
NEAR_WITNESS = {"kind": "evolution", "spec": {
    "dims": [2, 2], "seed": 71, "drift": None, "dm": False,
    "chans": [{"targets": [0], "tlist": [0.0, 20.0, 40.0, 60.0], "coeff": [0.05, -0.03, 0.04]},
              {"targets": [1], "tlist": [0.0, 20.0 + 1e-9, 30.0, 45.0], "coeff": [0.02, 0.06, -0.07]}]}}
NEAR_WITNESS_2 = {"kind": "evolution", "spec": {
    "dims": [2], "seed": 72, "drift": None, "dm": True,
    "chans": [{"targets": [0], "tlist": [0.0, 1.0 - 1.5e-10, 1.75, 2.5], "coeff": [0.9, -1.1, 0.6]},
              {"targets": [0], "tlist": [0.0, 1.0, 2.0], "coeff": [-0.7, 1.3]}]}}
# every time grid an integer-dtype array (np.arange(0, 5, 2), np.array([0, 1, 3])): the merged grid is an int64 array; the
# coefficients are not integers
INT_GRID_WITNESS = {"kind": "evolution", "spec": {
    "dims": [2], "seed": 81, "drift": {"targets": [0]}, "dm": False,
    "chans": [{"targets": [0], "tlist": [0.0, 2.0, 4.0], "coeff": [0.75, -1.25], "tkind": "arange", "ckind": "f64"},
              {"targets": [0], "tlist": [0.0, 1.0, 3.0], "coeff": [-0.5, 1.625], "tkind": "i64", "ckind": "f32"}]}}
MIXED_GRID_WITNESS = {"kind": "evolution", "spec": {
    "dims": [2, 2], "seed": 82, "drift": None, "dm": True,
    "chans": [{"targets": [0], "tlist": [0.0, 1.0, 2.0, 5.0], "coeff": [2.0, -1.0, 3.0], "tkind": "ilist", "ckind": "i64"},
              {"targets": [1], "tlist": [0.0, 0.375, 1.5], "coeff": [0.875, -0.125], "tkind": "f32", "ckind": "f32"},
              {"targets": [1, 0], "tlist": [0.0, 3.0, 4.0], "coeff": [0.5, 0.25, 7.0], "tkind": "tuple", "ckind": "f64"}]}}
CONST_WITNESS_2 = {"kind": "evolution", "spec": {
    "dims": [2], "seed": 10, "drift": {"targets": [0]}, "dm": True,
    "chans": [{"targets": [0], "tlist": [0.4, 0.9], "coeff": False},
              {"targets": [0], "tlist": [0.0, 0.35, 0.8, 1.3], "coeff": [0.9, -1.3, 0.6]},
              {"targets": [0], "tlist": None, "coeff": True}]}}
RUNSTATE_WITNESS = {"kind": "run_state", "spec": {
    "dims": [2], "seed": 1, "drift": None, "dm": False,
    "chans": [{"targets": [0], "tlist": [0.0, 1.0], "coeff": [0.5]}]}}


class C14(PropertyCheck):
    id = "C14"
    lean_modules = ["QipVerif.Props.C14"]
    drivers = ["drv_grid"]
    theorems = [
        "QipVerif.C14.merged_strict",
        "QipVerif.C14.merged_contains",
        "QipVerif.C14.fill_eq_code",
        "QipVerif.C14.fill_eq_step",
        "QipVerif.C14.leak_counterexample",
        "QipVerif.C14.piecewise_constant",
        "QipVerif.C14.fullCoeffs_eq",
        "QipVerif.C14.reload_fixed_point",
        "QipVerif.C14.save_read_labels",
        "QipVerif.C14.save_read_shape",
        "QipVerif.C14.save_read_shape_counterexample",
        "QipVerif.C14.fill_eq_step_repaired",
        "QipVerif.C14.fullCoeffs_eq_repaired",
        "QipVerif.C14.save_read_shape_repaired",
        "QipVerif.C14.variants_false",
        "QipVerif.C14.cubic_interpolant",
        "QipVerif.C14.splineDegree_spec",
        "QipVerif.C14.run_analytically_is_time_ordered",
        "QipVerif.C14.header_written",
        "QipVerif.C14.save_read_labels_partial",
        "QipVerif.C14.save_read_labels_repaired",
        "QipVerif.C14.C14_counterexample_empty_header",
        "QipVerif.C14.variants_w_false",
        "QipVerif.C14.fill_w_eq_fill",
        "QipVerif.C14.fill_eq_code_w",
        "QipVerif.C14.fill_eq_step_w",
        "QipVerif.C14.fill_eq_step_repaired_w",
        "QipVerif.C14.fullCoeffs_eq_w",
        "QipVerif.C14.fullCoeffs_eq_repaired_w",
        "QipVerif.C14.run_analytically_is_time_ordered_w",
        "QipVerif.C14.catchup_counterexample",
        "QipVerif.C14.fill_catchup_near",
        "QipVerif.C14.variants_k_false",
        "QipVerif.C14.merged_strict_k",
        "QipVerif.C14.merged_contains_k",
        "QipVerif.C14.merged_covers",
        "QipVerif.C14.C14_counterexample_chained",
        "QipVerif.C14.fullCoeffs_eq_repaired_k",
        "QipVerif.C14.run_analytically_is_time_ordered_k",
    ]
    technique = ("Lean 4 proof (induction over the merged grid with the slot invariant, exact rationals; Mathlib's matrix exponential, "
                 "its derivative and Gronwall's inequality for the time-ordered product) + model/implementation correspondence; the "
                 "numerical solvers and Qobj.expm are numerical agreement (partial)")
    level_text = ("Lean 4 theorems over exact rationals, for every tolerance tol >= 0, any number of channels and any grids: the merged "
                  "grid of get_full_tlist is strictly increasing with gaps > tol and consists of channel points (unconditionally); for "
                  "channels with strictly increasing grids starting at 0 whose distinct points are more than tol apart it contains every "
                  "channel point, and the coefficient that _fill_coeff / get_full_coeffs return at every merged point T_k is the channel's "
                  "step function at T_k (slot value, 0 from the channel's last point on) for EVERY coefficient array of length n-1 or n "
                  "(fill_eq_step_repaired / fullCoeffs_eq_repaired: the source as it is in /repo, where the last element of a full-length "
                  "coefficient has no effect - fix C14-2, applied; variant flag read from the tree; fill_eq_step with the hypothesis "
                  "LastZero and leak_counterexample describe the padding before the fix); the step functions are constant on every merged "
                  "slot (piecewise_constant).  run_analytically_is_time_ordered (PROVED, formerly a trusted analytic fact): for every "
                  "matrix size, arbitrary drift and control matrices and the slices (dt_k, column k) of the model, the ordered product "
                  "of the slice exponentials exp(-i dt_k (drift + sum_m c_m(T_k) H_m)) - Mathlib's matrix exponential - is U(T_end) for "
                  "the function U with U(0) = 1, U continuous, dU/dt = -i H(t) U(t) (right derivative at every real t, two-sided "
                  "derivative off the merged grid) where H(t) = drift + sum_m c_m(t) H_m is the STATED Hamiltonian at the real time t "
                  "(step coefficient holds its value from one grid point to the next, zero once its grid has ended), and U is the "
                  "only continuous function with that right derivative and U(0) = 1, and the only continuous function with U(0) = 1 that "
                  "satisfies the equation at the times that are not merged grid points (Gronwall): the slice product is the time-ordered "
                  "exponential.  A reloaded channel resamples to itself; labels survive save_coeff/read_coeff when no label contains "
                  "';' or a newline and a header line is written (header_written: always for the call as it is in /repo - fix C14-5, applied; "
                  "for np.savetxt(header=...) as it was before the fix not for a single pulse labelled '' saved without time column - "
                  "C14_counterexample_empty_header, confirmed on the code: KeyError); array shapes survive for every number of pulses and columns (save_read_shape_repaired: "
                  "np.loadtxt(ndmin=2), fix C14-3, applied; save_read_shape_counterexample describes the call before the fix).  "
                  "Advance step of _fill_coeff (variant read from the tree: `if` as found / bounded `while`, fix C14-7): every "
                  "resampling theorem and run_analytically_is_time_ordered hold for BOTH shapes under the same hypotheses "
                  "(fill_w_eq_fill: under SepAll the loop moves at most once per merged point, *_w theorems); catchup_counterexample: a "
                  "slot of 8e-11 < tol makes the loop as found read the later coefficients one slot off, the repaired loop returns the "
                  "step function; fill_catchup_near: for the repaired loop WITHOUT any separation hypothesis (any strictly increasing "
                  "channel grid, any strictly increasing T) the value at every T_k is the channel's step function at some time within "
                  "tol of T_k.  "
                  "PARTIAL: that Qobj.expm computes the matrix exponential, run_state (sesolve/mesolve) and the text round trip "
                  "('%1.16f') are numerical; they are checked on every run by the correspondence (1-3 subsystems of dimension 2-3, 1-4 "
                  "channels, independent non-uniform grids ending at different times, ket and density matrix) against an independent "
                  "ordered product of scipy.linalg.expm over the model's merged grid, not proved.  Cubic-spline coefficients (partial, "
                  "numerical): processors with spline_kind='cubic', channels with 2-7 samples on independent grids ending at the same / "
                  "different times: get_full_coeffs against an independent make_interp_spline evaluation (outside the channel's own grid "
                  "the boundary sample is kept, as the QuTiP solver does - fix C14-4, applied), run_analytically, the operator "
                  "the solver integrates, run_state against an independent DOP853 integration and save/reload; the model only states the "
                  "degree min(3, n-1) of the interpolant per sample count (cubic_interpolant over the regenerated Gen.cubicInterp, "
                  "compared behaviourally).")
    level_note = ("partial: proof for the resampling / merged-grid / label logic and for 'ordered product of slice exponentials = "
                  "time-ordered exponential of the stated piecewise-constant Hamiltonian' (existence, ODE, uniqueness; Mathlib "
                  "NormedSpace.exp); the numerical clause (Qobj.expm, sesolve/mesolve, np.savetxt '%1.16f' precision, cubic splines) is "
                  "trusted runtime numerics compared to 1e-9 (analytic) / 2e-6 (solver) on sampled processors.  The fixes C14-1..C14-5 "
                  "are applied in /repo (run_state options, last element of a full-length step coefficient, ndmin=2, cubic boundary); "
                  "the check reads the variant of the tree with ast and is green on both shapes; C14-5 (header line of save_coeff for an "
                  "empty header string) is applied as well, variant flag hdr read from the tree.  Uniqueness is proved both in the class of "
                  "continuous functions with a right derivative at every point of [0, T_end) and in the larger class of continuous "
                  "functions that are differentiable only off the merged grid.  "
                  "Trusted: Lean kernel (propext, Classical.choice, Quot.sound), the harness py/props/c14.py.")
    trusted_base = [
        "Lean 4.33 kernel; axioms propext, Classical.choice, Quot.sound",
        "np.unique/np.sort/np.hstack/np.diff as modelled by Grid.sortU/keepFrom (validated by the correspondence)",
        "float comparisons against tol=1e-10 agree with the rational 1/10^10 away from the threshold (cases within a factor 1+-2^-20 are skipped)",
        "Qobj.expm / scipy.linalg.expm compute the matrix exponential (Mathlib's NormedSpace.exp in the theorem); qutip.sesolve/mesolve, "
        "np.savetxt/np.loadtxt, scipy CubicSpline (runtime numerics, compared not proved)",
        "that run_analytically forms H_k = H_drift + sum_m coeffs[m,k]*H_m and one exponential per slice (read from the source; "
        "compared numerically against an independent product over the model's slices on every run)",
        "py/props/c14.py (harness, independent step-function / expm reference)",
    ]
    assumptions = ["no noise configured; spline_kind = step_func for the proved part",
                   "distinct grid points of all channels differ by more than tol (SepAll) for the containment / resampling theorems",
                   "numeric band of run_analytically against the expm product: 1e-9, widened only for specs with clusters of channel "
                   "points closer than 3e-10 by 2 x sum_clusters (span + 1e-10) x sum_channels 2 max|coeff| ||H_channel||_2 (what "
                   "mis-assigned slices of length <= tol can contribute; resolution_slack), i.e. a few 1e-9 at most",
                   "class grid-step-below-tol (known finding, excluded by SepAll): a channel whose own grid has a slot not longer than "
                   "tol = 1e-10; members are evaluated and reported as KNOWN-FINDING once the class is recorded in known_findings.json"]
    rule = ("exact stream: case = (1-4 channels with independent strictly increasing dyadic grids starting at 0 and ending at different "
            "times, coefficients of length n-1 or n, absent / constant pulses) for get_full_tlist, _fill_coeff, get_full_coeffs and the "
            "slices; tolerance stream: points 2^-40 or 2^-30 away from points of other channels; numeric stream: processors with 1-3 "
            "subsystems of dimension 2-3, optional drift, 1-4 random Hermitian controls, channels given as coeff=True/False with a tlist "
            "of their own (ending before / after / with the others, starting late), without tlist or with a scalar tlist; rounding "
            "stream: channel grids whose breakpoints and end points coincide as real numbers but not bitwise (cumsum of decimal "
            "durations, typed-in decimals, k*0.1, other association order) with non-zero last coefficients; history stream: one "
            "Processor object (any documented constructor form) evolved, edited through the public API (pulse.targets/.qobj/.coeff/"
            ".tlist, add_pulse, remove_pulse, add_drift) and evolved again, 2-4 steps; non-trivial = at least "
            "two channels with different grids; near stream: two distinct points of different channels 1.5e-10 ... 1e-8*t apart at "
            "t ~ 1, 20, 1e3, 1e6; container stream: integer-dtype / float32 / list / tuple time grids and float32 / integer coefficient "
            "arrays with exactly representable values; aliasing stream: one array object as coefficient / tlist of several channels "
            "(full-length and short form), solver path called before the resampling path, caller's arrays snapshot-compared; "
            "malformed inputs and save/reload are counted with their own tags; numeric band of run_analytically 1e-9, widened only "
            "for specs with clusters of channel points closer than 3e-10 by 2 x sum_clusters (span + 1e-10) x sum_channels 2 max|c| "
            "||H_channel||_2 (resolution_slack)")

    def regenerate(self, ctx):
        FLAGS.update(detect_flags())
        gen = os.path.join(paths.LEAN, "QipVerif", "Gen", "FillCubic.lean")
        text = ("import QipVerif.Model.Grid\n"
                "/-! REGENERATED by py/props/c14.py from src/qutip_qip/pulse.py:_fill_coeff (cubic branch). Do not edit. -/\n"
                "namespace QipVerif.Gen\nopen QipVerif.Grid\n\n"
                "/-- the interpolation routine the cubic branch of `_fill_coeff` calls for a channel with `n` samples -/\n"
                f"def cubicInterp : Nat → Interp := {FLAGS['cubic']}\n\n"
                "/-- outside the channel's own grid the resampled coefficient keeps the boundary sample (`false`: it is 0) -/\n"
                f"def cubicHoldsOutside : Bool := {'true' if FLAGS['hold'] else 'false'}\n\n"
                "end QipVerif.Gen\n")
        old = open(gen).read() if os.path.exists(gen) else None
        if old != text:
            os.makedirs(os.path.dirname(gen), exist_ok=True)
            open(gen, "w").write(text)
        ctx.log(f"variants of {paths.REPO}: step padding zeroes the last element of a full-length coefficient = {bool(FLAGS['zl'])}, "
                f"np.loadtxt ndmin = {FLAGS['ndmin']}, save_coeff always writes the header line = {bool(FLAGS['hdr'])}, "
                f"Processor(dims=...) without num_qubits supported = {bool(FLAGS['dimsonly'])}, "
                f"_fill_coeff catches up over several slots = {bool(FLAGS['cu'])}, "
                f"get_full_tlist compares with the last kept point = {bool(FLAGS['kk'])}")
        return [gen] if old != text else []

    # -----------------------------------------------------------------------------------------
    def _three(self, ctx, mk):
        outs = _Drv(ctx.driver("drv_grid")).run([mk(TOL), mk(TOL * (1 + F(1, 2**20))), mk(TOL * (1 - F(1, 2**20)))])
        return outs[0], not (outs[0] == outs[1] == outs[2])

    def _exact_case(self, ctx, res, rng, tolstream, malformed):
        qutip, Processor, _fill_coeff, Pulse = _impl()
        nch = rng.randint(1, 4)
        grids = [gen_grid(rng) for _ in range(nch)]
        if tolstream:
            grids = perturb_tol(rng, [[x for x in g] for g in grids])
            # a slot shorter than tol inside ONE channel (2^-40, 2^-34 < tol < 2^-30): the merged grid has no point for its
            # end; this is where the two shapes of the advance step of _fill_coeff (if / while, fixes/C14-7) differ
            for g in grids:
                if len(g) >= 2 and rng.random() < 0.25:
                    j = rng.randrange(1, len(g))
                    x = g[j] + F(1, 2**rng.choice([40, 34, 30]))
                    if x not in g and (j + 1 >= len(g) or x < g[j + 1]):
                        g.insert(j + 1, x)
        chans = []
        for g in grids:
            r = rng.random()
            if r < 0.08:
                chans.append(["n"])
            elif r < 0.16:
                r2 = rng.random()
                # a bool coefficient: without tlist, with a tlist of its own, or with a SCALAR tlist (np.hstack takes it as
                # a single point of the merged grid)
                chans.append(["b", rng.random() < 0.5, (g if r2 < 0.45 else None if r2 < 0.8 else [g[rng.randrange(len(g))]])])
            else:
                cs = gen_coeffs(rng, len(g), last_zero=rng.random() < 0.7)
                if malformed and rng.random() < 0.4:
                    cs = cs + [F(1)] * rng.randint(1, 2) if rng.random() < 0.5 else cs[:max(0, len(cs) - rng.randint(1, 2))]
                chans.append(["a", g, cs])
        inp = {"chans": [[c[0]] + ([bool(c[1]), None if c[2] is None else [fs(x) for x in c[2]]] if c[0] == "b" else
                                   ([[fs(x) for x in c[1]], [fs(x) for x in c[2]]] if c[0] == "a" else [])) for c in chans]}
        tags = ["stream=" + ("malformed" if malformed else "tolerance" if tolstream else "exact"), f"channels={nch}"]
        if any(0 < b - a <= TOL for g in grids for a, b in zip(g[:-1], g[1:])):
            tags.append("own slot shorter than tol")
        for c in chans:
            if c[0] == "b":
                tags.append("bool channel: " + ("no tlist" if c[2] is None else "scalar tlist" if len(c[2]) == 1 else "own tlist"))

        def chs(c):
            if c[0] == "n":
                return "n"
            if c[0] == "b":
                return f"b:{int(c[1])}" + ("" if c[2] is None else ":" + fl(c[2]))
            return f"a:{fl(c[1])}:{fl(c[2])}"

        o, tight = self._three(ctx, lambda tol: f"coeffs tol={fs(tol)} chans=" + "!".join(chs(c) for c in chans))
        if tight:
            res.case(inp, nontrivial=False, tags=tags + ["tight-skipped"])
            return
        # implementation
        p = Processor(1)
        for i, c in enumerate(chans):
            if c[0] == "n":
                p.add_pulse(Pulse(qutip.sigmax(), 0, label=f"c{i}"))
            elif c[0] == "b":
                tl = None if c[2] is None else (float(c[2][0]) if len(c[2]) == 1 else np.array([float(x) for x in c[2]]))
                p.add_pulse(Pulse(qutip.sigmax(), 0, tlist=tl, coeff=bool(c[1]), label=f"c{i}"))
            else:
                p.add_pulse(Pulse(qutip.sigmax(), 0, tlist=np.array([float(x) for x in c[1]]),
                                  coeff=np.array([float(x) for x in c[2]]), label=f"c{i}"))
        try:
            T = p.get_full_tlist()
            rows = p.get_full_coeffs()
            impl = ("ok", T, rows)
        except Exception as e:
            impl = ("err", classify_exc(e))
        distinct = len({tuple(c[1]) for c in chans if c[0] == "a"}) >= 2
        res.case(inp, nontrivial=distinct, tags=tags + ["result=" + (o.split()[1] if o.startswith("err") else "ok")])
        w = {"kind": "coeffs", "chans": inp["chans"]}
        if o.startswith("err "):
            if impl != ("err", o[4:]):
                res.disagree(inp, o, str(impl)[:200], "verdict of get_full_coeffs", w)
            return
        if impl[0] != "ok":
            res.disagree(inp, o[:200], str(impl), "verdict of get_full_coeffs", w)
            return
        Ts, rs = o[3:].split("|")
        Tm = pfl(Ts)
        rm = [pfl(r) for r in rs.split("!")]
        if not exact_eq(impl[1], Tm):
            res.disagree(inp, [float(x) for x in Tm], list(impl[1]), "get_full_tlist", w)
            return
        if len(rm) != len(impl[2]) or not all(exact_eq(a, b) for a, b in zip(impl[2], rm)):
            res.disagree(inp, [[float(x) for x in r] for r in rm], np.asarray(impl[2]).tolist(), "get_full_coeffs", w)
            return
        # slices of run_analytically: dt and coefficient column, against the model
        so = _Drv(ctx.driver("drv_grid")).run([f"slices t={fl(Tm)} rows=" + "!".join(fl(r) for r in rm)])[0]
        sl = [s for s in so[3:].split(";") if s]
        Tn = np.asarray(impl[1])
        for n in range(len(Tn) - 1):
            dt, col = sl[n].split(":")
            if F(dt) != F(float(Tn[n + 1])) - F(float(Tn[n])) or not exact_eq([impl[2][m][n] for m in range(len(rm))], pfl(col)):
                res.disagree(inp, sl[n], n, "slice of run_analytically", w)
                return
        if len(sl) != max(0, len(Tn) - 1):
            res.disagree(inp, len(sl), len(Tn) - 1, "number of slices", w)

    def _fill_direct(self, ctx, res, rng):
        """_fill_coeff on an arbitrary full_tlist (also ones that do not contain the channel's points)"""
        _fill_coeff = _impl()[2]
        g = gen_grid(rng)
        cs = gen_coeffs(rng, len(g), last_zero=False)
        r = rng.random()
        if r < 0.4:
            full = sorted(set(g) | set(gen_grid(rng, tmax=10)))
        elif r < 0.7:
            full = gen_grid(rng, tmax=10, start0=rng.random() < 0.7)
        else:
            full = sorted(set(g[: rng.randint(1, len(g))]) | set(gen_grid(rng)))
            if rng.random() < 0.3:
                full = full + [full[-1] + F(1, 2**40)]
        if rng.random() < 0.1:
            g = g[:1]
            cs = cs[:rng.randint(0, 1)]
        inp = {"fill": [[fs(x) for x in g], [fs(x) for x in cs], [fs(x) for x in full]]}
        o, tight = self._three(ctx, lambda tol: f"fill tol={fs(tol)} oldt={fl(g)} oldc={fl(cs)} full={fl(full)}")
        if tight:
            res.case(inp, nontrivial=False, tags=["fill-direct", "tight-skipped"])
            return
        try:
            # integer-valued grids are handed over as integer-dtype arrays half of the time (the row must stay a float row)
            ints = all(x.denominator == 1 for x in list(g) + list(full)) and rng.random() < 0.5
            arr = (lambda l: np.array([int(x) for x in l], dtype=np.int64)) if ints else (lambda l: np.array([float(x) for x in l]))
            out = _fill_coeff(np.array([float(x) for x in cs]), arr(g), arr(full), {"_step_func_coeff": True})
            impl = ("ok", out)
        except Exception as e:
            impl = ("err", classify_exc(e))
        res.case(inp, nontrivial=True, tags=["fill-direct", "result=" + (o.split()[1] if o.startswith("err") else "ok")])
        w = {"kind": "fill", "fill": inp["fill"]}
        if o.startswith("err "):
            if impl != ("err", o[4:]):
                res.disagree(inp, o, str(impl)[:200], "verdict of _fill_coeff", w)
        elif impl[0] != "ok" or not exact_eq(impl[1], pfl(o[3:])):
            res.disagree(inp, o[:300], str(impl)[:300], "_fill_coeff", w)

    def _tlist_direct(self, ctx, res, rng):
        """get_full_tlist alone, unsorted tlists with duplicates and near-duplicates"""
        qutip, Processor, _f, Pulse = _impl()
        n = rng.randint(0, 4)
        grids = []
        for _ in range(n):
            g = gen_grid(rng, start0=rng.random() < 0.7)
            if rng.random() < 0.3:
                g = g + [rng.choice(g) + F(rng.choice([1, -1, 3, -3]), 2**rng.choice([40, 34, 33, 30]))]
                g = [x for x in g if x >= 0]
            if rng.random() < 0.3:
                rng.shuffle(g)
            if rng.random() < 0.05:
                g = []
            grids.append(g)
        inp = {"tlists": [[fs(x) for x in g] for g in grids]}
        o, tight = self._three(ctx, lambda tol: f"tlist tol={fs(tol)}" + (" grids=" + "!".join(fl(g) for g in grids) if grids else ""))
        if tight:
            res.case(inp, nontrivial=False, tags=["tlist-direct", "tight-skipped"])
            return
        p = Processor(1)
        for i, g in enumerate(grids):
            p.add_pulse(Pulse(qutip.sigmax(), 0, tlist=np.array([float(x) for x in g]), coeff=True, label=f"c{i}"))
        try:
            T = p.get_full_tlist()
            impl = "none" if T is None else ("ok", list(T))
        except Exception as e:
            impl = ("err", classify_exc(e))
        res.case(inp, nontrivial=len(grids) >= 2, tags=["tlist-direct"])
        if o == "none":
            ok = impl == "none"
        else:
            ok = isinstance(impl, tuple) and impl[0] == "ok" and exact_eq(impl[1], pfl(o[3:]))
        if not ok:
            res.disagree(inp, o[:300], str(impl)[:300], "get_full_tlist", {"kind": "tlist", "tlists": inp["tlists"]})

    def _no_header_case(self, ctx, res, inp, spec, labels, inctime):
        d = tempfile.mkdtemp(prefix="c14-")
        w = {"kind": "labels", "labels": labels, "inctime": inctime}
        try:
            p, labs, _d, _m = build_processor(spec, labels)
            load_pulses(p, labs, spec)
            fn = os.path.join(d, "coeff.txt")
            p.save_coeff(fn, inctime=inctime)
            with open(fn, newline="") as f:
                first = f.readline()
            res.case(inp, nontrivial=False, tags=["labels-malformed", "no-header-line"])
            if first.startswith("#"):
                res.disagree(inp, "no header line (empty header string)", first, "header line written by save_coeff", w)
                return
            p2, _l, _d2, _m2 = build_processor(spec, labels)
            try:
                p2.read_coeff(fn, inctime=inctime)
                impl = ("ok", [q.label for q in p2.pulses])
            except Exception as e:
                impl = ("err", type(e).__name__)
            if impl != ("err", "KeyError"):
                res.disagree(inp, "KeyError (first data row read as the header)", impl, "read_coeff of a file without header line", w)
        finally:
            shutil.rmtree(d, ignore_errors=True)

    def _labels_case(self, ctx, res, rng, malformed):
        qutip, Processor, _f, Pulse = _impl()
        alpha = "abcXYZ019_ -+#@!/.,:'\"()[]{}=%&*?<>|~^\\ \t"
        n = rng.randint(1, 4)
        labels = []
        while len(labels) < n:
            l = "".join(rng.choice(alpha) for _ in range(rng.randint(0 if malformed else 1, 5)))
            if malformed and rng.random() < 0.5:
                l = l[: len(l) // 2] + rng.choice([";", "\n", ";;"]) + l[len(l) // 2:]
            if l not in labels:
                labels.append(l)
        inctime = rng.random() < 0.7
        spec = make_spec(rng, nsub=1, const=False)
        spec["chans"] = (spec["chans"] * 4)[:n]
        spec["chans"] = [dict(c) for c in spec["chans"]]
        inp = {"labels": labels, "inctime": inctime, "chans": len(spec["chans"])}
        enc = lambda s: ".".join(str(ord(c)) for c in s) if s else "-"
        ho = _Drv(ctx.driver("drv_grid")).run([f"header inctime={int(inctime)} labels=" + ";".join(enc(l) for l in labels)])[0]
        if ho == "none":
            # the tree as found, empty header string: np.savetxt writes no header line; read_coeff takes the first data
            # row for it and looks up a label no pulse has (known finding class; repaired by fixes/C14-5.patch)
            return self._no_header_case(ctx, res, inp, spec, labels, inctime)
        model_line = "".join(chr(int(c)) for c in ho[3:].split(".")) if ho[3:] != "-" else ""
        ro = _Drv(ctx.driver("drv_grid")).run([f"read inctime={int(inctime)} line=" + enc(model_line.split("\n")[0] + "\n")])[0]
        model_labels = ["" if x == "-" else "".join(chr(int(c)) for c in x.split(".")) for x in ro[3:].split(";")]
        d = tempfile.mkdtemp(prefix="c14-")
        tags = ["labels-" + ("malformed" if malformed else "valid"), f"inctime={inctime}"]
        try:
            p, labs, _d, _m = build_processor(spec, labels)
            load_pulses(p, labs, spec)
            fn = os.path.join(d, "coeff.txt")
            p.save_coeff(fn, inctime=inctime)
            with open(fn, newline="") as f:
                first = f.readline()
            res.case(inp, nontrivial=n >= 2, tags=tags)
            w = {"kind": "labels", "labels": labels, "inctime": inctime}
            clean = all(";" not in l and "\n" not in l for l in labels)
            # np.savetxt replaces "\n" inside the header by "\n# ": only the first physical line is compared then
            if first != model_line.split("\n")[0] + "\n":
                res.disagree(inp, model_line, first, "header line written by save_coeff", w)
                return
            T0, C0 = p.get_full_tlist(), p.get_full_coeffs()
            p2, _l, _d2, _m2 = build_processor(spec, labels)
            try:
                r = p2.read_coeff(fn, inctime=inctime)
                got = [q.label for q in p2.pulses]
                impl = ("ok", got)
            except Exception as e:
                impl = ("err", type(e).__name__)
            if clean:
                if model_labels != labels:
                    res.disagree(inp, model_labels, labels, "model: labels do not survive the round trip", w)
                elif impl != ("ok", labels):
                    res.disagree(inp, model_labels, impl, "labels after read_coeff", w)
                else:
                    so = _Drv(ctx.driver("drv_grid")).run([f"readshape inctime={int(inctime)} rows={len(T0)} n={n}"])[0]
                    mlen = [None if x == "x" else int(x) for x in so[3:].split(",")]
                    ilen = [len(q.coeff) if np.ndim(q.coeff) == 1 else None for q in p2.pulses]
                    if mlen != ilen:
                        res.disagree(inp, mlen, ilen, "shape of the coefficients after read_coeff", w)
                    elif None not in mlen:
                        C1 = np.array([q.coeff for q in p2.pulses])
                        if C1.shape != np.asarray(C0).shape or np.abs(C1 - C0).max() > 1e-15:
                            res.disagree(inp, np.asarray(C0).shape, C1.shape, "coefficients after read_coeff", w)
                    else:
                        tags.append("reload-squeezed")
                    if inctime and (len(p2.pulses[0].tlist) != len(T0) or np.abs(p2.pulses[0].tlist - T0).max() > 1e-15):
                        res.disagree(inp, list(T0), list(p2.pulses[0].tlist), "tlist after read_coeff", w)
            else:
                # the model predicts which labels read_coeff looks up; they differ from the saved ones
                if impl[0] == "ok" and impl[1] != model_labels[: len(impl[1])]:
                    res.disagree(inp, model_labels, impl, "labels after read_coeff (separator inside a label)", w)
        finally:
            shutil.rmtree(d, ignore_errors=True)

    def _numeric_case(self, ctx, res, spec, tags, check_solver=True, check_reload=True):
        """run_analytically / get_full_coeffs / run_state / save-reload against an independent expm product
        over the model's merged grid.  Returns a description of the first mismatch or None."""
        handed_reset()
        p, labels, drift_full, mats = build_processor(spec)
        load_pulses(p, labels, spec)
        d = pre_calls(p, spec)
        if d:
            return d
        chs = "!".join((f"b:{int(ch['coeff'])}" + ("" if ch.get("tlist") is None else ":" + fl(F(x) for x in ch["tlist"]))) if is_const(ch)
                       else f"a:{fl(F(x) for x in ch['tlist'])}:{fl(F(x) for x in ch['coeff'])}" for ch in spec["chans"])
        o, tight = self._three(ctx, lambda tol: f"coeffs tol={fs(tol)} chans={chs}")
        if tight or not o.startswith("ok "):
            return "skip"
        Ts, rs = o[3:].split("|")
        Tm = [float(x) for x in pfl(Ts)]
        rm = [pfl(r) for r in rs.split("!")]
        T = p.get_full_tlist()
        C = p.get_full_coeffs()
        if not exact_eq(T, pfl(Ts)):
            return "get_full_tlist differs from the model's merged grid"
        if not all(exact_eq(a, b) for a, b in zip(C, rm)):
            return "get_full_coeffs differs from the model's resampled coefficients"
        d = coeffs_mismatch(spec, Tm, C, exact=True)
        if d:
            return d
        Uref = reference_U(Tm, spec, drift_full, mats)
        Ul = p.run_analytically()
        U = np.eye(Uref.shape[0], dtype=complex)
        for u in Ul:
            U = u.full() @ U
        band = 1e-9 + resolution_slack(spec, mats)        # 1e-9 unless the spec has structure below the grid resolution
        if np.abs(U - Uref).max() > band:
            return (f"run_analytically differs from the ordered expm product by {np.abs(U - Uref).max():.3e}"
                    + (f" (band {band:.2e})" if band > 1e-9 else ""))
        d = solver_operator_mismatch(p, spec, Tm, drift_full, mats)
        if d:
            return d
        if check_solver:
            psi, v = init_state(spec)
            fin, how, err = solver_final(p, psi, spec.get("dm"), T)
            exp = Uref @ v
            exp = np.outer(exp, exp.conj()) if spec.get("dm") else exp.reshape(-1, 1)
            if np.abs(fin - exp).max() > 2e-6:
                return f"{how} differs from the ordered expm product by {np.abs(fin - exp).max():.3e}"
            tags.append("solver=" + how)
        if check_reload:
            d = tempfile.mkdtemp(prefix="c14-")
            try:
                fn = os.path.join(d, "c.txt")
                p.save_coeff(fn)
                p2, _l, _d, _m = build_processor(spec)
                p2.read_coeff(fn)
                Ul2 = p2.run_analytically()
                U2 = np.eye(Uref.shape[0], dtype=complex)
                for u in Ul2:
                    U2 = u.full() @ U2
                if np.abs(U2 - Uref).max() > band:
                    return f"after save/reload run_analytically differs by {np.abs(U2 - Uref).max():.3e}"
            finally:
                shutil.rmtree(d, ignore_errors=True)
        return handed_after("get_full_coeffs / run_analytically / run_state / save_coeff")

    def _model_grid_mismatch(self, ctx, p, spec):
        """get_full_tlist / get_full_coeffs of the processor object against the model's merged grid and resampled coefficients for
        the channels `spec` states (exact).  -> None, 'skip' or a description"""
        chs = "!".join((f"b:{int(ch['coeff'])}" + ("" if ch.get("tlist") is None else ":" + fl(F(x) for x in ch["tlist"]))) if is_const(ch)
                       else f"a:{fl(F(x) for x in ch['tlist'])}:{fl(F(x) for x in ch['coeff'])}" for ch in spec["chans"])
        o, tight = self._three(ctx, lambda tol: f"coeffs tol={fs(tol)} chans={chs}")
        if tight or not o.startswith("ok "):
            return "skip"
        Ts, rs = o[3:].split("|")
        try:
            T, C = p.get_full_tlist(), p.get_full_coeffs()
        except Exception as e:
            return f"get_full_tlist / get_full_coeffs raised {type(e).__name__}: {e}"
        if not exact_eq(T, pfl(Ts)):
            return "get_full_tlist differs from the model's merged grid of the current channels"
        rm = [pfl(r) for r in rs.split("!")]
        if len(rm) != len(C) or not all(exact_eq(a, b) for a, b in zip(C, rm)):
            return "get_full_coeffs differs from the model's resampled coefficients of the current channels"
        return None

    def _history_stream(self, ctx, res, hists):
        """processor histories: the model's contract is that every observable is a function of the fields the processor
        states at that moment (nothing of an earlier evolution or of earlier field values survives).  After every step: model
        grid / coefficients of the CURRENT channels (exact), expm product of the current fields, fresh processor."""
        for w in hists:
            edits = [e["op"] for st in w["steps"] for e in st["edits"]]
            tags = ["history", f"steps={len(w['steps'])}", "constructor=" + w["state"].get("ctor", "both"), "built via " + w["state"]["via"]]
            tags += sorted({"edit=" + e for e in edits})
            skipped = []

            def on_step(k, p, state):
                d = self._model_grid_mismatch(ctx, p, state)
                if d == "skip":
                    skipped.append(k)
                    return None
                return d
            try:
                f, d = run_history(w, on_step)
            except Exception as e:
                f, d = True, "harness / implementation raised " + type(e).__name__ + ": " + str(e)[:200]
            if skipped:
                tags.append("history-step-model-skipped (tolerance-tight)")
            res.case({"history": w}, nontrivial=len(w["steps"]) >= 2, tags=tags)
            if f:
                res.disagree({"history": w}, "time-ordered product / model grid of the fields stated at that step", d, d, w)

    def correspondence(self, ctx, res):
        rng = ctx.rng
        k = 8 if ctx.thorough else 1
        # small deterministic family: two channels, every pair of (grid, coefficient length)
        fam = 0
        for ga in ([0, 1], [0, 1, 2], [0, F(1, 2), 3]):
            for gb in ([0, 2], [0, F(3, 2), 2], [0, F(1, 4), F(1, 2), 4], [0, 1]):
                for fa in (False, True):
                    for fb in (False, True):
                        import random as _r
                        r2 = _r.Random(fam)
                        fam += 1
                        ca = gen_coeffs(r2, len(ga), full=fa, last_zero=(fam % 3 != 0))
                        cb = gen_coeffs(r2, len(gb), full=fb, last_zero=True)
                        self._fixed_coeffs(ctx, res, [[F(x) for x in ga], [F(x) for x in gb]], [ca, cb])
        res.notes.append(f"deterministic family: {fam} pairs of channels (3 x 4 grids x coefficient length n-1 / n, "
                         "full-length coefficients with zero and non-zero last value)")
        for i in range(500 * k):
            self._exact_case(ctx, res, rng, tolstream=(i % 3 == 1), malformed=(i % 3 == 2))
        for _ in range(400 * k):
            self._fill_direct(ctx, res, rng)
        for _ in range(300 * k):
            self._tlist_direct(ctx, res, rng)
        for i in range(40 * k):
            self._labels_case(ctx, res, rng, malformed=(i % 4 == 3))
        nnum = 40 * k
        solver_how = set()
        stream = [(make_spec(rng, last_zero=not flags()["zl"], const=(i % 4 == 3)), []) for i in range(nnum)]
        # channels given as coeff=True / coeff=False: every shape of own tlist x both values next to two array channels
        nconst = 0
        for shape in CONST_SHAPES:
            for val in (True, False):
                spec = make_spec(rng, last_zero=not flags()["zl"], nsub=rng.randint(1, 2), const=False)
                spec["chans"] = spec["chans"][:2]
                add_const_channel(rng, spec, shape=shape, value=val)
                stream.append((spec, []))
                nconst += 1
        # every documented constructor form, qubits and mixed dimensions
        for dims in ([2, 2], [2, 3], [3]):
            for form in ctor_forms(dims):
                spec = make_spec(rng, last_zero=not flags()["zl"], const=False)
                spec.update(dims=list(dims), ctor=form, drift={"targets": [0]})
                for c in spec["chans"]:
                    c["targets"] = [rng.randrange(len(dims))]
                stream.append((spec, ["constructor=" + form]))
        # channel grids that coincide as real numbers but not bitwise (outside the exact dyadic stream)
        nround = 0
        for spec in [dict(ROUNDING_WITNESS["spec"]), dict(ROUNDING_WITNESS_2["spec"])] + [make_rounding_spec(rng) for _ in range(28 * k)]:
            stream.append((spec, ["rounding"] + rounding_tags(spec)))
            nround += 1
        # one array OBJECT as coefficient (or tlist) of several channels; the solver path called first
        nsh = 0
        for spec in [dict(SHARED_WITNESS["spec"]), dict(SOLVER_FIRST_WITNESS["spec"])] + [make_shared_spec(rng) for _ in range(22 * k)]:
            stream.append((spec, shared_tags(spec) if any(c.get("cshare") is not None for c in spec["chans"]) else ["solver path first"]))
            nsh += 1
        for spec, _e in stream[:nnum]:
            if rng.random() < 0.25:                   # ordinary processors too: a call of the solver path first
                spec["pre"] = [rng.choice(PRE_CALLS[:3])]
        # containers and dtypes: integer-dtype / float32 / list / tuple time grids, float32 / integer coefficient arrays
        ndt = 0
        for spec in [dict(INT_GRID_WITNESS["spec"]), dict(MIXED_GRID_WITNESS["spec"])] + [make_dtype_spec(rng, all_int=(i % 2 == 0)) for i in range(24 * k)]:
            stream.append((spec, dtype_tags(spec)))
            ndt += 1
        # distinct points of different channels closer than a tolerance that grows with t would allow
        nnear = 0
        for spec in [dict(NEAR_WITNESS["spec"]), dict(NEAR_WITNESS_2["spec"])] + [make_near_spec(rng, S=NEAR_SCALES[i % 4]) for i in range(24 * k)]:
            stream.append((spec, near_tags(spec) if spec.get("near") else ["near-coincident distinct points"]))
            nnear += 1
        # chains of near-duplicates (p, p + 0.7 tol, p + 1.4 tol; a sub-resolution slot right after another channel's point)
        nchain = 0
        for spec in [dict(CHAIN_WITNESS["spec"]), dict(CHAIN_WITNESS_2["spec"])] + [make_chain_spec(rng) for _ in range(18 * k)]:
            stream.append((spec, ["chained near-duplicates"]))
            nchain += 1
        for spec, extra in stream:
            if "chained near-duplicates" in extra and not flags()["kk"]:
                # tree as found: the class is a defect of get_full_tlist (fixes/C14-8); only the model's merged grid and rows
                # are compared (exact), the evolution is not judged
                p, labels, _df, _m = build_processor(spec)
                load_pulses(p, labels, spec)
                d = self._model_grid_mismatch(ctx, p, spec)
                res.case({"numeric": spec}, nontrivial=True, tags=["numeric", "chained near-duplicates: model only (tree as found)"])
                if d and d != "skip":
                    res.disagree({"numeric": spec}, "model's merged grid / rows", d, d, {"kind": "evolution", "spec": spec})
                continue
            tags = ["numeric", f"subsystems={len(spec['dims'])}", f"channels={len(spec['chans'])}",
                    "state=" + ("dm" if spec["dm"] else "ket"), "drift=" + str(bool(spec["drift"]))] + extra
            for c in spec["chans"]:
                if is_const(c):
                    tags.append(f"constant channel coeff={c['coeff']}, " + ("no tlist" if c.get("tlist") is None else "own tlist"))
            try:
                d = self._numeric_case(ctx, res, spec, tags)
            except Exception as e:
                d = "implementation raised " + type(e).__name__ + ": " + str(e)[:200]
            if d == "skip":
                tags.append("numeric-skipped (tolerance-tight or refused)")
            res.case({"numeric": spec}, nontrivial=len({tuple(c.get("tlist") or ()) for c in spec["chans"]}) >= 2, tags=tags)
            solver_how |= {t for t in tags if t.startswith("solver=")}
            if d and d != "skip":
                res.disagree({"numeric": spec}, "ordered expm product over the model's merged grid", d, d,
                             {"kind": "evolution", "spec": spec})
        hists = [RETARGET_WITNESS] + history_family() + [make_history(rng) for _ in range(30 * k)]
        self._history_stream(ctx, res, hists)
        res.notes.append(f"history stream: {len(hists)} histories on ONE Processor object (2-4 steps: evolve / inspect, then 1-2 edits "
                         "through the public API - pulse.targets / .qobj / .coeff / .tlist, add_pulse, remove_pulse, add_drift -, "
                         "evolve again): after every step run_analytically, Processor.controls, get_full_coeffs, get_qobjevo, "
                         "run_state and save/reload (in varying order and subsets) against the expm product of the fields stated at "
                         "that moment, the model's merged grid / coefficients of the current channels, and a fresh processor built "
                         "from the current fields; processors constructed by every documented constructor form")
        res.notes.append(f"chain stream: {nchain} processors with a chain of near-duplicates (p, p + a tol, p + b tol, a, b - a <= 0.9, "
                         "b >= 1.1) over two or three channels; on a tree whose get_full_tlist compares with the last kept point "
                         "(fixes/C14-8) all observables are judged, on the tree as found only the model's grid and rows")
        res.notes.append(f"aliasing stream: {nsh} processors in which ONE float64 array object is the coefficient of two or three channels "
                         "(full-length form on a grid of m points, short form on a grid of m+1 points) or one tlist object the grid of "
                         "two channels, 40 % of them - and a quarter of the ordinary random processors - with a call of the solver "
                         "path (get_qobjevo / run_state, with and without noise) BEFORE the resampling path; every array handed to the "
                         "API is snapshot-compared after every call")
        res.notes.append(f"container stream: {ndt} processors whose time grids are integer-dtype arrays (int64, int32, np.arange), float32 "
                         "arrays, Python lists / tuples and whose coefficients are float64 / float32 / integer arrays (half of them with "
                         "EVERY grid of integer dtype: the merged grid is an integer array), values exactly representable; compared "
                         "with the model on the exact rationals and with the expm product")
        res.notes.append(f"numeric stream: {nnum} random processors (every fourth with a channel given as coeff=True/False), {nconst} "
                         f"with a constant channel of every shape (own tlist ending before / after / with the others, starting late, "
                         f"no tlist) x both values, {nround} with channel grids whose breakpoints and end points coincide as real "
                         "numbers but not bitwise (cumsum of decimal durations, typed-in decimals, k*0.1, other association order, "
                         f"scaled linspace; non-zero last coefficients), {nnear} with two DISTINCT points of different channels a gap "
                         "1.5e-10 ... 1e-8*t apart at times of the order 1, 20, 1e3, 1e6 (own steps far above tol, coefficients that "
                         "change at both points)")
        # cubic coefficients (numeric, partial): model = degree of the interpolant per sample count; the oracle's reference
        ncub = 0
        for n in range(0, 9):
            mo = _Drv(ctx.driver("drv_grid")).run([f"splinedeg n={n}"])[0]
            md = None if mo == "none" else int(mo[3:])
            cd = spline_degree_of_code(n, rng)
            inp = {"spline_degree": n}
            res.case(inp, nontrivial=n >= 2, tags=["cubic-degree", f"samples={n}"])
            if md != cd:
                res.disagree(inp, md, cd, f"degree of the interpolant _fill_coeff uses for {n} samples "
                             "(largest degree of polynomials reproduced off the grid)",
                             {"kind": "cubic", "spec": cubic_family()[2 if n == 3 else 0]})
        specs = cubic_family() + [make_cubic_spec(rng, const=(i % 3 == 2)) for i in range(16 * k)]
        for i, spec in enumerate(specs):
            tags = ["cubic", "samples=" + ",".join(("const" if is_const(c) else str(len(c["tlist"]))) for c in spec["chans"]),
                    "ends=" + ("same" if len({c["tlist"][-1] for c in spec["chans"] if c.get("tlist") is not None}) == 1 else "different")]
            try:
                d = check_cubic(spec, solver=(i % 2 == 0))
            except Exception as e:
                d = "harness/implementation raised " + type(e).__name__ + ": " + str(e)[:200]
            res.case({"cubic": spec}, nontrivial=len({tuple(c.get("tlist") or ()) for c in spec["chans"]}) >= 2, tags=tags)
            ncub += 1
            if d:
                res.disagree({"cubic": spec}, "spline through the samples (make_interp_spline, degree min(3, n-1))", d, d,
                             {"kind": "cubic", "spec": spec})
        res.notes.append(f"cubic stream (partial): {ncub} processors with spline_kind='cubic', channels with 2-7 samples on independent "
                         "non-uniform grids ending at the same / different times: get_full_coeffs against an independent "
                         "make_interp_spline evaluation (1e-9), run_analytically against the slice product of those values, the operator "
                         "the solver integrates at every merged point, run_state against an independent DOP853 integration (2e-6), "
                         "save/reload; interpolant degree per sample count against Grid.splineDegree")
        res.notes.append("numeric stream (partial): run_analytically, get_full_coeffs, run_state (ket and density matrix, "
                         "method dop853, atol=rtol=1e-10, compared to 2e-6) and save/reload against an independent scipy.linalg.expm product "
                         "over the model's merged grid; solver reached through: " + ", ".join(sorted(solver_how)))

    def _fixed_coeffs(self, ctx, res, grids, coeffs):
        qutip, Processor, _f, Pulse = _impl()
        inp = {"chans": [["a", [fs(x) for x in g], [fs(x) for x in c]] for g, c in zip(grids, coeffs)]}
        o = _Drv(ctx.driver("drv_grid")).run([f"coeffs tol={fs(TOL)} chans=" + "!".join(f"a:{fl(g)}:{fl(c)}" for g, c in zip(grids, coeffs))])[0]
        p = Processor(1)
        for i, (g, c) in enumerate(zip(grids, coeffs)):
            p.add_pulse(Pulse(qutip.sigmax(), 0, tlist=np.array([float(x) for x in g]), coeff=np.array([float(x) for x in c]), label=f"c{i}"))
        res.case(inp, nontrivial=True, tags=["family=pairs"])
        try:
            T, C = p.get_full_tlist(), p.get_full_coeffs()
        except Exception as e:
            res.disagree(inp, o, repr(e), "family: implementation raised", {"kind": "coeffs", "chans": inp["chans"]})
            return
        Ts, rs = o[3:].split("|")
        if not exact_eq(T, pfl(Ts)) or not all(exact_eq(a, pfl(b)) for a, b in zip(C, rs.split("!"))):
            res.disagree(inp, o, [list(T), np.asarray(C).tolist()], "family: get_full_tlist / get_full_coeffs",
                         {"kind": "coeffs", "chans": inp["chans"]})

    # -----------------------------------------------------------------------------------------
    def oracle_replay(self, ctx, w):
        kind = w["kind"]
        if kind == "run_state":
            spec = w["spec"]
            p, labels, drift_full, mats = build_processor(spec)
            load_pulses(p, labels, spec)
            psi, v = init_state(spec)
            try:
                r = p.run_state(psi)
            except Exception as e:
                return True, f"Processor.run_state raises {type(e).__name__}: {e}"
            exp = reference_U(union_grid(spec), spec, drift_full, mats) @ v
            err = np.abs(r.states[-1].full().ravel() - exp).max()
            return (err > 1e-4), f"run_state final state differs from the ordered product by {err:.2e}"
        if kind == "cubic":
            d = check_cubic(w["spec"], solver=True, full=bool(w.get("full")))
            return (d is not None), (d or "resampled spline coefficients, slice product, solver and save/reload agree")
        if kind == "phistory":
            return run_history(w)
        if kind == "evolution":
            spec = w["spec"]
            handed_reset()
            try:
                p, labels, drift_full, mats = build_processor(spec)
            except Exception as e:
                return True, f"{ctor_text(spec['dims'], spec.get('ctor', 'both'))} raises {type(e).__name__}: {e}"
            load_pulses(p, labels, spec)
            grid = union_grid(spec)            # independent of the model: all points, no tolerance
            Uref = reference_U(grid, spec, drift_full, mats)
            # calls of the solver path made BEFORE the resampling path (not judged themselves: noisy=False leaves the drift out);
            # afterwards the caller's arrays must be what was handed over and every observable must still be right
            d = pre_calls(p, spec)
            if d:
                return True, d
            try:
                T = p.get_full_tlist()
                C = p.get_full_coeffs()
                # the merged grid: every breakpoint of every channel is represented (up to rounding), nothing else
                Tl = [float(t) for t in T]
                if any(min(abs(g - t) for t in Tl) > 1.0000001e-10 for g in grid) or any(min(abs(g - t) for g in grid) > 0 for t in Tl) \
                        or any(b - a <= 0 for a, b in zip(Tl[:-1], Tl[1:])):
                    try:
                        Ux = np.eye(Uref.shape[0], dtype=complex)
                        for u in p.run_analytically():
                            Ux = u.full() @ Ux
                        more = f"; run_analytically differs from the time-ordered product by {np.abs(Ux - Uref).max():.3e}"
                    except Exception as e:
                        more = f"; run_analytically raises {type(e).__name__}"
                    missing = [g for g in grid if min(abs(g - t) for t in Tl) > 1.0000001e-10]
                    what = (f"{missing!r} missing (more than 1e-10 from every merged point)" if missing else
                            f"{[t for t in Tl if min(abs(g - t) for g in grid) > 0]!r} are not points of any channel")
                    return True, f"get_full_tlist {Tl!r} does not represent the breakpoints of the channels: {what}" + more
                d = coeffs_mismatch(spec, T, C) or handed_after("get_full_coeffs")
                if d:
                    return True, d
                U = np.eye(Uref.shape[0], dtype=complex)
                for u in p.run_analytically():
                    U = u.full() @ U
            except Exception as e:
                return True, f"implementation raised {type(e).__name__}: {e}"
            band = 1e-9 + resolution_slack(spec, mats)    # 1e-9 unless the spec has structure below the grid resolution
            if np.abs(U - Uref).max() > band:
                return True, (f"run_analytically differs from the time-ordered product by {np.abs(U - Uref).max():.3e}"
                              + (f" (band {band:.2e})" if band > 1e-9 else ""))
            d = handed_after("run_analytically") or solver_operator_mismatch(p, spec, T, drift_full, mats) or handed_after("get_qobjevo")
            if d:
                return True, d
            psi, v = init_state(spec)
            try:
                fin, how, err = solver_final(p, psi, spec.get("dm"), T)
            except Exception as e:
                return True, f"solver path raised {type(e).__name__}: {e}"
            exp = Uref @ v
            exp = np.outer(exp, exp.conj()) if spec.get("dm") else exp.reshape(-1, 1)
            if np.abs(fin - exp).max() > 2e-6:
                return True, f"{how} differs from the time-ordered product by {np.abs(fin - exp).max():.3e}"
            d = handed_after("run_state")
            if d:
                return True, d
            # save / reload of the coefficients
            dd = tempfile.mkdtemp(prefix="c14-")
            try:
                fn = os.path.join(dd, "c.txt")
                try:
                    p.save_coeff(fn)
                    p2, _l, _d, _m = build_processor(spec)
                    p2.read_coeff(fn)
                    U2 = np.eye(Uref.shape[0], dtype=complex)
                    for u in p2.run_analytically():
                        U2 = u.full() @ U2
                except Exception as e:
                    return True, f"save_coeff / read_coeff / run_analytically after the reload raised {type(e).__name__}: {e}"
                if np.abs(U2 - Uref).max() > band:
                    return True, f"after save/reload run_analytically differs from the time-ordered product by {np.abs(U2 - Uref).max():.3e}"
                d = handed_after("save_coeff / read_coeff")
                if d:
                    return True, d
            finally:
                shutil.rmtree(dd, ignore_errors=True)
            return False, "analytical propagators, resampled coefficients, solver and save/reload agree with the time-ordered product"
        if kind == "reload-shape":
            spec = {"dims": [2], "seed": 3, "drift": None, "dm": False,
                    "chans": [{"targets": [0], "tlist": [0.0, 0.5, 1.25], "coeff": [0.5, -0.25]} for _ in range(w["npulses"])]}
            d = tempfile.mkdtemp(prefix="c14-")
            try:
                p, labels, _d, _m = build_processor(spec)
                load_pulses(p, labels, spec)
                fn = os.path.join(d, "c.txt")
                p.save_coeff(fn, inctime=w["inctime"])
                p2, _l, _d2, _m2 = build_processor(spec)
                try:
                    p2.read_coeff(fn, inctime=w["inctime"])
                except Exception as e:
                    return True, f"read_coeff raises {type(e).__name__}: {e}"
                C0 = np.asarray(p.get_full_coeffs())
                for q, row in zip(p2.pulses, C0):
                    if np.ndim(q.coeff) != 1 or len(q.coeff) != len(row) or np.abs(q.coeff - row).max() > 1e-15:
                        return True, f"reloaded coefficient of pulse {q.label!r} is {q.coeff!r}, saved row was {row.tolist()}"
                return False, "coefficients survive the round trip"
            finally:
                shutil.rmtree(d, ignore_errors=True)
        if kind == "labels":
            labels, inctime = w["labels"], w["inctime"]
            if any(";" in l or "\n" in l for l in labels) or len(set(labels)) != len(labels):
                return False, "precondition not met (separator or newline inside a label)"
            if len(labels) == 1 and not inctime and flags()["ndmin"] != 2:
                return False, "single pulse without time column (recorded finding class), not judged"
            spec = {"dims": [2], "seed": 5, "drift": None, "dm": False,
                    "chans": [{"targets": [0], "tlist": [0.0, 0.5 + 0.25 * i, 1.25 + 0.5 * i], "coeff": [0.5, -0.25 + i]}
                              for i in range(len(labels))]}
            d = tempfile.mkdtemp(prefix="c14-")
            try:
                p, labs, _d, _m = build_processor(spec, labels)
                load_pulses(p, labs, spec)
                fn = os.path.join(d, "c.txt")
                try:
                    p.save_coeff(fn, inctime=inctime)
                    p2, _l, _d2, _m2 = build_processor(spec, labels)
                    p2.read_coeff(fn, inctime=inctime)
                except Exception as e:
                    return True, f"save_coeff/read_coeff raises {type(e).__name__}: {e}"
                got = [q.label for q in p2.pulses]
                if got != labels:
                    return True, f"labels after reload {got}, saved {labels}"
                C0 = np.asarray(p.get_full_coeffs())
                for q, row in zip(p2.pulses, C0):
                    if np.ndim(q.coeff) != 1 or len(q.coeff) != len(row) or np.abs(q.coeff - row).max() > 1e-15:
                        return True, f"reloaded coefficient of pulse {q.label!r} differs from the saved row"
                return False, "labels and coefficients survive the round trip"
            finally:
                shutil.rmtree(d, ignore_errors=True)
        if kind in ("coeffs", "fill", "tlist"):
            return self._oracle_exact(ctx, w)
        return False, "unknown witness kind"

    def finding_matches(self, witness, finding):
        if finding.get("class") == "chained-near-duplicates":
            return chained_duplicates(witness)
        if finding.get("class") == "grid-step-below-tol":
            return own_step_below_tol(witness)
        return PropertyCheck.finding_matches(self, witness, finding)

    def _oracle_exact(self, ctx, w):
        qutip, Processor, _fill_coeff, Pulse = _impl()
        if w["kind"] == "coeffs":
            chans = [c for c in w["chans"] if c[0] == "a"]
            if len(chans) != len(w["chans"]):
                return False, "only array channels are judged"
            grids = [[F(x) for x in c[1]] for c in chans]
            coeffs = [[F(x) for x in c[2]] for c in chans]
            if not all(len(g) >= 2 and g[0] == 0 and gap_ok(g) and len(c) in (len(g) - 1, len(g)) for g, c in zip(grids, coeffs)):
                return False, "precondition not met"
            allp = sorted({x for g in grids for x in g})
            if not gap_ok(allp):
                return False, "points of different channels within tol (excluded by hypothesis)"
            p = Processor(1)
            for i, (g, c) in enumerate(zip(grids, coeffs)):
                p.add_pulse(Pulse(qutip.sigmax(), 0, tlist=np.array([float(x) for x in g]), coeff=np.array([float(x) for x in c]), label=f"c{i}"))
            try:
                T, C = p.get_full_tlist(), p.get_full_coeffs()
            except Exception as e:
                return True, f"implementation raised {type(e).__name__}: {e}"
            if [F(float(t)) for t in T] != allp:
                return True, "merged grid is not the sorted union of the channel grids"
            for m, (g, c) in enumerate(zip(grids, coeffs)):
                for kk, t in enumerate(allp):
                    if F(float(C[m][kk])) != step_value(g, c, t):
                        return True, f"channel {m} at t={float(t)!r}: {float(C[m][kk])!r} instead of {float(step_value(g, c, t))!r}"
            return False, "resampled coefficients are the channels' step functions"
        return False, "exact comparison only"

    def oracle_always(self, ctx):
        rng = ctx.rng
        f, d = self.oracle_replay(ctx, RUNSTATE_WITNESS)
        if f:
            yield RUNSTATE_WITNESS, d
        for w in (ROUNDING_WITNESS, ROUNDING_WITNESS_2, CONST_WITNESS, CONST_WITNESS_2, RETARGET_WITNESS, NEAR_WITNESS, NEAR_WITNESS_2,
                  INT_GRID_WITNESS, MIXED_GRID_WITNESS, SHARED_WITNESS, SOLVER_FIRST_WITNESS):
            f, d = self.oracle_replay(ctx, w)
            if f:
                yield w, d
        tiny = []
        if class_recorded() or flags()["cu"]:
            # slots shorter than the resolution of the merged grid: excluded by hypothesis (SepAll).  Tree as found: a recorded
            # known finding, members are evaluated and matched by finding_matches (KNOWN-FINDING).  Repaired tree
            # (fixes/C14-7, `cu`): the slot only loses its own slice (fill_catchup_near), members must pass
            tiny = [TINY_STEP_WITNESS] + [{"kind": "evolution", "spec": make_tiny_step_spec(rng)} for _ in range(3)]
        if flags()["kk"] or class_recorded("chained-near-duplicates"):
            # chains of near-duplicates: dropped by get_full_tlist as found (known class), represented by the repaired one
            tiny = tiny + [CHAIN_WITNESS, CHAIN_WITNESS_2] + [{"kind": "evolution", "spec": make_chain_spec(rng)} for _ in range(6)]
        for w in tiny + history_family()[::3] + [make_history(rng) for _ in range(8)] + constructor_witnesses():
            f, d = self.oracle_replay(ctx, w)
            if f:
                yield w, d
        for i in range(8):
            w = {"kind": "evolution", "spec": make_shared_spec(rng)}
            f, d = self.oracle_replay(ctx, w)
            if f:
                yield w, d
        for i in range(8):
            w = {"kind": "evolution", "spec": make_dtype_spec(rng, all_int=(i % 2 == 0))}
            f, d = self.oracle_replay(ctx, w)
            if f:
                yield w, d
        for i in range(8):
            w = {"kind": "evolution", "spec": make_near_spec(rng, S=NEAR_SCALES[i % 4])}
            f, d = self.oracle_replay(ctx, w)
            if f:
                yield w, d
        for i in range(16):
            if i % 4 == 3:
                spec = make_rounding_spec(rng)
            else:                      # unrepaired tree: non-zero last value excluded by hypothesis
                spec = make_spec(rng, last_zero=not flags()["zl"], const=(i % 4 == 2))
            w = {"kind": "evolution", "spec": spec}
            f, d = self.oracle_replay(ctx, w)
            if f:
                yield w, d
        # cubic coefficients: deterministic family (2, 3, 4, 5 samples next to a finer channel) and random processors
        for spec in cubic_family()[:4] + [make_cubic_spec(rng, const=(i == 3)) for i in range(4)]:
            w = {"kind": "cubic", "spec": spec}
            f, d = self.oracle_replay(ctx, w)
            if f:
                yield w, d

    def oracle_search(self, ctx, budget_s):
        t0 = time.time()
        rng = ctx.rng
        # systematic first: grids equal up to rounding (both orders of the two channels), constant channels of every shape
        first = [ROUNDING_WITNESS, ROUNDING_WITNESS_2, CONST_WITNESS, CONST_WITNESS_2]
        sw = dict(ROUNDING_WITNESS["spec"])
        sw["chans"] = [dict(sw["chans"][1], targets=[0]), dict(sw["chans"][0], targets=[1])]
        first.append({"kind": "evolution", "spec": sw})
        for shape in CONST_SHAPES:
            for val in (True, False):
                for kind in ("evolution", "cubic"):
                    base = {"dims": [2, 2], "seed": 21, "drift": {"targets": [0, 1]}, "dm": False,
                            "chans": [{"targets": [0], "tlist": [0.0, 0.35, 0.8, 1.3], "coeff": [0.9, -1.3, 0.6] + ([0.0] if kind == "cubic" else [])},
                                      {"targets": [1], "tlist": [0.0, 0.5, 1.3], "coeff": [-0.4, 1.2] + ([0.0] if kind == "cubic" else [])}]}
                    if kind == "cubic":
                        base["spline"] = "cubic"
                        if shape == "ends-last" and not flags()["hold"]:
                            continue
                    first.append({"kind": kind, "spec": add_const_channel(rng, base, shape=shape, value=val)})
        first += [NEAR_WITNESS, NEAR_WITNESS_2, INT_GRID_WITNESS, MIXED_GRID_WITNESS, SHARED_WITNESS, SOLVER_FIRST_WITNESS]
        if flags()["kk"] or class_recorded("chained-near-duplicates"):
            first += [CHAIN_WITNESS, CHAIN_WITNESS_2] + [{"kind": "evolution", "spec": make_chain_spec(rng)} for _ in range(12)]
        for pre in [None] + PRE_CALLS:            # the shared-amplitude processor after every kind of first call, both channel orders
            for rev in (False, True):
                sp = json.loads(json.dumps(SHARED_WITNESS["spec"]))
                if rev:
                    sp["chans"].reverse()
                if pre:
                    sp["pre"] = [pre]
                first.append({"kind": "evolution", "spec": sp})
        for tk in T_KINDS:                        # every grid container x every coefficient container, same values
            for ck in C_KINDS:
                sp = {"dims": [2], "seed": 83, "drift": {"targets": [0]}, "dm": False,
                      "chans": [{"targets": [0], "tlist": [0.0, 1.0, 3.0], "coeff": ([2.0, -1.0] if ck[0] == "i" else [1.5, -0.75]),
                                 "tkind": tk, "ckind": ck},
                                {"targets": [0], "tlist": [0.0, 2.0, 4.0], "coeff": ([-2.0, 3.0] if ck[0] == "i" else [-2.25, 0.625]),
                                 "tkind": tk, "ckind": ck}]}
                first.append({"kind": "evolution", "spec": sp})
        for S in NEAR_SCALES:                     # every scale x every gap (absolute and proportional to t)
            for dd in (1.5e-10, 5e-10, 1e-9, 3e-11 * S, 9e-11 * S, 1e-8 * S):
                first.append({"kind": "evolution", "spec": make_near_spec(rng, S=S, d=dd)})
        first += [RETARGET_WITNESS] + constructor_witnesses() + history_family()
        for w in first:
            f, d = self.oracle_replay(ctx, w)
            if f:
                yield w, d
        i = 0
        while time.time() - t0 < budget_s:
            i += 1
            spec = (make_rounding_spec(rng) if i % 6 == 0 else make_near_spec(rng) if i % 6 == 3 else make_dtype_spec(rng) if i % 6 == 5 else make_shared_spec(rng) if i % 6 == 1
                    else make_spec(rng, last_zero=not flags()["zl"], const=(i % 3 == 1)))
            w = {"kind": "evolution", "spec": spec}
            f, d = self.oracle_replay(ctx, w)
            if f:
                yield w, d
            w = make_history(rng)
            f, d = self.oracle_replay(ctx, w)
            if f:
                yield w, d
            w = {"kind": "cubic", "spec": make_cubic_spec(rng, const=(i % 2 == 0))}
            f, d = self.oracle_replay(ctx, w)
            if f:
                yield w, d
            w = {"kind": "labels", "labels": [f"p{i}" for i in range(rng.randint(1, 3))], "inctime": rng.random() < 0.5}
            f, d = self.oracle_replay(ctx, w)
            if f:
                yield w, d
            grids = [gen_grid(rng) for _ in range(rng.randint(1, 3))]
            w = {"kind": "coeffs", "chans": [["a", [fs(x) for x in g], [fs(x) for x in gen_coeffs(rng, len(g))]] for g in grids]}
            f, d = self.oracle_replay(ctx, w)
            if f:
                yield w, d


CHECK = C14()
