"""Shared by C02 and C16: exact-stream cases for the simulator/world model (lean/QipVerif/Model/Sim.lean),
their encoding for `drv_sim`, the instrumented run on the real `CircuitSimulator`, and canonical comparison.

A *case* is a dict
  n, ncb          qubits, classical bits of the circuit
  mode            "sv" | "dm"
  ops             [{"g": code, "q": [qubits], "cc": None|[ints], "ccv": int} | {"m": target, "store": None|int}]
  lists           caller-owned Python lists of ints (the heap cells 0..L-1)
  inits           initial states: {"k": 0, "vecs": [[ints]...]}  (one real vector, or [re, im])
  calls           [("run", state, cb|None, mr|None) | ("stat", state, cb|None) | ("init", state, cb|None, mr|None)
                   | ("step",)]
  picks           filled by the implementation run: what np.random.choice returned (fed to the model as `rng`)
"""
import ast, contextlib, os, math
from fractions import Fraction
import numpy as np

GATE_NAMES = {0: "X", 1: "CNOT", 2: "SWAP", 3: "TOFFOLI", 4: "SNOT", 5: "Z", 6: "CSIGN"}
GATE_ARITY = {0: 1, 1: 2, 2: 2, 3: 3, 4: 1, 5: 1, 6: 2}
NCTRL = {0: 0, 1: 1, 2: 0, 3: 2, 4: 0, 5: 0, 6: 1}

ERR = {IndexError: "index", TypeError: "type", ValueError: "value", AttributeError: "attr",
       NotImplementedError: "notimpl"}


def err_name(e):
    for cls, nm in ERR.items():
        if type(e) is cls:
            return nm
    return "other:" + type(e).__name__


# ------------------------------------------------------------------------------------------
# which variant of the code is checked out (the three proposed repairs)

def _ast_find_func(tree, cls, fn):
    for node in ast.walk(tree):
        if isinstance(node, ast.ClassDef) and node.name == cls:
            for f in node.body:
                if isinstance(f, ast.FunctionDef) and f.name == fn:
                    return f
    return None


def ast_cbits_copied(repo):
    """`initialize`: the value assigned to `self.cbits` in the branch guarded by the caller's list.
    `self.cbits = cbits` (a bare name) is an alias; anything else (list(cbits), cbits.copy(), cbits[:]) a copy."""
    from vlib.core import TranslatorError
    src = open(os.path.join(repo, "src/qutip_qip/circuit/circuitsimulator.py")).read()
    f = _ast_find_func(ast.parse(src), "CircuitSimulator", "initialize")
    if f is None:
        raise TranslatorError("CircuitSimulator.initialize not found")
    for node in ast.walk(f):
        if isinstance(node, ast.If) and any(isinstance(n, ast.Name) and n.id == "cbits" for n in ast.walk(node.test)):
            for st in node.body:
                if isinstance(st, ast.Assign) and any(
                        isinstance(t, ast.Attribute) and t.attr == "cbits" for t in st.targets):
                    return not (isinstance(st.value, ast.Name) and st.value.id == "cbits")
    raise TranslatorError("assignment of the caller's cbits in CircuitSimulator.initialize not recognised")


def ast_phase_reset(repo):
    """`GateCompiler.compile` assigns `self.global_phase` (reset) before compiling the gates."""
    from vlib.core import TranslatorError
    src = open(os.path.join(repo, "src/qutip_qip/compiler/gatecompiler.py")).read()
    f = _ast_find_func(ast.parse(src), "GateCompiler", "compile")
    if f is None:
        raise TranslatorError("GateCompiler.compile not found")
    for node in ast.walk(f):
        if isinstance(node, ast.Assign) and any(
                isinstance(t, ast.Attribute) and t.attr == "global_phase" for t in node.targets):
            return True
    return False


def ast_getter_pure(repo):
    """the `state` property does not assign `self._state`"""
    from vlib.core import TranslatorError
    src = open(os.path.join(repo, "src/qutip_qip/circuit/circuitsimulator.py")).read()
    f = _ast_find_func(ast.parse(src), "CircuitSimulator", "state")
    if f is None:
        raise TranslatorError("CircuitSimulator.state not found")
    for node in ast.walk(f):
        if isinstance(node, (ast.Assign, ast.AugAssign)):
            tg = node.targets if isinstance(node, ast.Assign) else [node.target]
            if any(isinstance(t, ast.Attribute) and t.attr == "_state" for t in tg):
                return False
    return True


def ast_assigns_attr(repo, rel, cls, fn, attr):
    """does method `cls.fn` assign `self.<attr>`"""
    from vlib.core import TranslatorError
    f = _ast_find_func(ast.parse(open(os.path.join(repo, rel)).read()), cls, fn)
    if f is None:
        raise TranslatorError(f"{cls}.{fn} not found")
    for node in ast.walk(f):
        if isinstance(node, (ast.Assign, ast.AugAssign)):
            tg = node.targets if isinstance(node, ast.Assign) else [node.target]
            if any(isinstance(t, ast.Attribute) and t.attr == attr and isinstance(t.value, ast.Name)
                   and t.value.id == "self" for t in tg):
                return True
    return False


def ast_calls_deepcopy(repo, rel, cls, fn):
    from vlib.core import TranslatorError
    f = _ast_find_func(ast.parse(open(os.path.join(repo, rel)).read()), cls, fn)
    if f is None:
        raise TranslatorError(f"{cls}.{fn} not found")
    return any(isinstance(n, ast.Call) and isinstance(n.func, ast.Name) and n.func.id == "deepcopy" for n in ast.walk(f))


def ast_returns_after_deepcopy(repo, rel, fn):
    """module-level function whose `gates` attribute of the returned circuit is assigned a deepcopy"""
    from vlib.core import TranslatorError
    tree = ast.parse(open(os.path.join(repo, rel)).read())
    for f in tree.body:
        if isinstance(f, ast.FunctionDef) and f.name == fn:
            for node in ast.walk(f):
                if isinstance(node, ast.Assign) and any(isinstance(t, ast.Attribute) and t.attr == "gates" for t in node.targets) \
                        and isinstance(node.value, ast.Call) and getattr(node.value.func, "id", None) == "deepcopy":
                    return True
            return False
    raise TranslatorError(f"{fn} not found in {rel}")


def probe_cfg(repo):
    """Flags of Sim.Cfg for the checked-out code: AST reading cross-checked by behaviour."""
    from vlib.core import TranslatorError
    import qutip
    from qutip_qip.circuit import QubitCircuit, CircuitSimulator
    from qutip_qip.operations import Gate
    qc = QubitCircuit(1, num_cbits=1)
    qc.add_measurement("M", targets=0, classical_store=0)
    sim = CircuitSimulator(qc)
    l = [1]
    sim.initialize(qutip.basis(2, 0), cbits=l)
    copy_b = sim.cbits is not l
    copy_a = ast_cbits_copied(repo)
    if copy_a != copy_b:
        raise TranslatorError(f"cbits aliasing: source reading ({copy_a}) and behaviour ({copy_b}) differ")
    try:
        Gate("X", targets=0, classical_controls=[0], classical_control_value=2)
        ccv = False
    except ValueError:
        ccv = True
    from qutip_qip.device import LinearSpinChain
    from qutip_qip.compiler import SpinChainCompiler
    q1 = QubitCircuit(1)
    q1.add_gate("SNOT", targets=0)
    p = LinearSpinChain(1)
    c = SpinChainCompiler(1, p.params, setup="linear")
    p.load_circuit(q1, compiler=c)
    a = p.global_phase
    p.load_circuit(q1, compiler=c)
    reset_b = abs(p.global_phase - a) < 1e-12
    reset_a = ast_phase_reset(repo)
    if reset_a != reset_b:
        raise TranslatorError(f"compiler phase reset: source reading ({reset_a}) and behaviour ({reset_b}) differ")
    q2 = QubitCircuit(2)
    q2.add_gate("X", targets=0)
    q2.add_gate("X", targets=1)
    sim = CircuitSimulator(q2)
    sim.initialize(qutip.basis([2, 2], [0, 0]))
    sim.step()
    before = sim._state.shape
    sim.state
    pure_b = sim._state.shape == before
    pure_a = ast_getter_pure(repo)
    if pure_a != pure_b:
        raise TranslatorError(f"state property: source reading ({pure_a}) and behaviour ({pure_b}) differ")
    # fix C02-3: density-matrix mode refuses feed-forward
    q3 = QubitCircuit(2, num_cbits=1)
    q3.add_gate("SNOT", targets=0)
    q3.add_measurement("M", targets=0, classical_store=0)
    q3.add_gate("X", targets=1, classical_controls=[0])
    try:
        CircuitSimulator(q3, mode="density_matrix_simulator").run(qutip.ket2dm(qutip.basis([2, 2], [0, 0])))
        refuse_b = False
    except NotImplementedError:
        refuse_b = True
    refuse_a = ast_assigns_attr(repo, "src/qutip_qip/circuit/circuitsimulator.py", "CircuitSimulator", "initialize",
                                "_mixed_cbits")
    if refuse_a != refuse_b:
        raise TranslatorError(f"dm feed-forward refusal: source reading ({refuse_a}) and behaviour ({refuse_b}) differ")
    # fixes C16-3 / C16-4: transformations return gate objects of their own
    from qutip_qip.transpiler.chain import to_chain_structure
    q4 = QubitCircuit(3)
    q4.add_gate("RX", targets=1, arg_value=0.5)
    q4.add_gate("CNOT", controls=0, targets=2)
    shares = lambda r: any(any(g is h for h in q4.gates) or any(
        (g.targets is not None and g.targets is h.targets) or (g.controls is not None and g.controls is h.controls)
        for h in q4.gates) for g in r.gates)
    rev_b = not shares(q4.reverse_circuit())
    chain_b = not shares(to_chain_structure(q4, "circular"))
    rev_a = ast_calls_deepcopy(repo, "src/qutip_qip/circuit/circuit.py", "QubitCircuit", "reverse_circuit")
    chain_a = ast_returns_after_deepcopy(repo, "src/qutip_qip/transpiler/chain.py", "to_chain_structure")
    if rev_a != rev_b or chain_a != chain_b:
        raise TranslatorError(f"gate copies in reverse_circuit/to_chain_structure: source reading ({rev_a},{chain_a}) "
                              f"and behaviour ({rev_b},{chain_b}) differ")
    # fix C16-5: noise objects keep their own attributes
    from qutip_qip.noise import RelaxationNoise
    nz = RelaxationNoise(t1=1.0, t2=0.5)
    nz.get_noisy_pulses(dims=[2, 2], pulses=[])
    noise_b = nz.t1 == 1.0
    noise_a = not ast_assigns_attr(repo, "src/qutip_qip/noise.py", "RelaxationNoise", "get_noisy_pulses", "t1")
    if noise_a != noise_b:
        raise TranslatorError(f"noise attribute rewriting: source reading ({noise_a}) and behaviour ({noise_b}) differ")
    return {"copyCbits": copy_b, "checkCcv": ccv, "resetPhase": reset_b, "pureGetter": pure_b,
            "dmRefuse": refuse_b, "copyRev": rev_b, "copyChain": chain_b, "noiseLocal": noise_b}


def cfg_str(cfg):
    return "".join("1" if cfg[k] else "0" for k in ("copyCbits", "checkCcv", "resetPhase", "pureGetter", "dmRefuse", "copyRev", "copyChain",
                                                   "noiseLocal"))


# ------------------------------------------------------------------------------------------
# encoding for the driver

def _ints(l):
    return ",".join(str(int(x)) for x in l)


def _optints(l):
    if l is None:
        return "N"
    if len(l) == 0:
        return "e"
    return _ints(l)


def enc_op(op):
    if "g" in op:
        if op["ccv"] is None:      # classical_control_value left at its default (the model computes it)
            return "g.%d.%s.%s.D" % (op["g"], _ints(op["q"]), _optints(op["cc"]))
        return "g.%d.%s.%s.%d" % (op["g"], _ints(op["q"]), _optints(op["cc"]), op["ccv"])
    return "m.%d.%s" % (op["m"], "N" if op["store"] is None else str(op["store"]))


def enc_state(st):
    return "%d:%s" % (st["k"], "_".join(_ints(v) for v in st["vecs"]))


def enc_call(c):
    r = lambda x: "N" if x is None else str(x)
    if c[0] == "run":
        return "run.%d.%s.%s" % (c[1], r(c[2]), _optints(c[3]))
    if c[0] == "stat":
        return "stat.%d.%s" % (c[1], r(c[2]))
    if c[0] == "init":
        return "init.%d.%s.%s" % (c[1], r(c[2]), _optints(c[3]))
    if c[0] == "step":
        return "step"
    if c[0] == "state":
        return "state"
    if c[0] == "query":
        return "query"
    if c[0] == "compile":
        return "compile.%d.%s" % (c[1], "N" if c[2] is None else ",".join("%d:%d" % kv for kv in c[2]))
    if c[0] == "load":
        return "load.%d.%d" % (c[1], 1 if c[2] else 0)
    if c[0] == "edit":
        return "edit.%d" % c[1]
    raise ValueError(c)


def encode(case, cfg, picks=(), phases=()):
    lists = ";".join(_optints(l) for l in case["lists"]) if case["lists"] else "N"
    alts = ""
    if case.get("alts"):
        # later versions of the circuit object (in-place edits between calls, see the call `edit.<v>`)
        alts = " alts=" + "|".join((";".join(enc_op(o) for o in ops) if ops else "N") for ops in case["alts"])
    return ("hist cfg=%s mode=%s n=%d ncb=%d ops=%s lists=%s rng=%s inits=%s phases=%s calls=%s" % (
        cfg_str(cfg), case["mode"], case["n"], case["ncb"],
        ";".join(enc_op(o) for o in case["ops"]) if case["ops"] else "N",
        lists, _ints(picks) if len(picks) else "N",
        "/".join(enc_state(s) for s in case["inits"]) if case["inits"] else "N",
        _ints(phases) if len(phases) else "N",
        "/".join(enc_call(c) for c in case["calls"]) if case["calls"] else "N")) + alts


# ------------------------------------------------------------------------------------------
# parsing the driver's answer into canonical form

def _p_list(s):
    return [] if s == "e" else [int(x) for x in s.split(",")]


def _p_state(s):
    if s == "None":
        return None
    k, vs = s.split(":")
    return {"k": int(k), "vecs": [[int(x) for x in v.split(",")] for v in vs.split("_")]}


def _p_prob(s):
    a, b = s.split("/")
    return Fraction(int(a), int(b))


def _p_events(s):
    return [e for e in s.split(",") if e]


def parse_answer(line):
    """-> ("err", kind) | ("ok", chunks, world)"""
    if line.startswith("err "):
        return ("err", line[4:].strip())
    if line == "bad-op":
        return ("bad", None)
    parts = line.split(" ; ")
    chunks = []
    for p in parts[:-1]:
        f = p.split("!")
        garbage = f[-1] == "GARBAGE"
        if garbage:
            f = f[:-1]
        hp = f[-1][1:]
        f = f[:-1]
        heap_after = ([_p_list(x) for x in hp.split(";")] if hp != "" else [])
        if f[0] == "R":
            states = [_p_state(x) for x in f[1].split("&")] if f[1] else []
            probs = [_p_prob(x) for x in f[2].split("&")] if f[2] else []
            cb = None if f[3] == "A" else [
                (None, None) if x == "N" else (int(x.split(":")[0]), _p_list(x.split(":")[1]))
                for x in f[3].split("+") if x != ""]
            chunks.append({"kind": "R", "states": states, "probs": probs, "cbits": cb, "events": _p_events(f[4])})
        elif f[0].startswith("E"):
            chunks.append({"kind": "E", "err": f[0][1:], "events": _p_events(f[1])})
        elif f[0] == "I":
            chunks.append({"kind": "I"})
        elif f[0] == "S":
            chunks.append({"kind": "S", "events": _p_events(f[1])})
        elif f[0] == "G":
            chunks.append({"kind": "G", "state": _p_state(f[1])})
        elif f[0] == "Q":
            chunks.append({"kind": "Q"})
        elif f[0] == "X":
            chunks.append({"kind": "X"})
        elif f[0].startswith("C"):
            chunks.append({"kind": "C", "tok": f[0][1:]})
        else:
            raise ValueError("chunk " + p)
        chunks[-1]["garbage"] = garbage
        chunks[-1]["heap"] = heap_after
    wf = dict(x.split("=", 1) for x in parts[-1].split("!")[1:])
    heap = [_p_list(x) for x in wf["heap"].split(";")] if wf["heap"] != "" else []
    sim = None
    if wf["sim"] != "N":
        cb, st, pr, oi, mr, mi, form, mixed = wf["sim"].split("|")
        sim = {"cbits": None if cb == "N" else int(cb), "state": _p_state(st), "prob": _p_prob(pr),
               "op_index": int(oi), "mres": None if mr == "N" else _p_list(mr), "mind": int(mi), "form": form,
               "mixed": sorted(_p_list(mixed))}
    ca, cp = wf["comp"].rsplit("/", 1)
    pa, pp = wf["proc"].rsplit("/", 1)
    world = {"heap": heap, "sim": sim, "comp": {"args": ca, "phase": int(cp)},
             "proc": {"pulses": None if pa == "N" else pa, "phase": int(pp)}}
    return ("ok", chunks, world)


# ------------------------------------------------------------------------------------------
# the implementation side

def state_to_np(st, mode):
    """model state -> what the implementation should hold (normalised ket / density matrix)"""
    if st is None:
        return None
    vecs = [np.array(v, dtype=float) for v in st["vecs"]]
    if mode == "sv":
        v = vecs[0].astype(complex)
        if len(vecs) == 2:
            v = v + 1j * vecs[1]
        return v / np.linalg.norm(v)
    rho = sum(np.outer(v, v) for v in vecs)
    return rho / np.trace(rho)


def build_circuit(case):
    """May raise (then the circuit cannot be constructed)."""
    from qutip_qip.circuit import QubitCircuit
    qc = QubitCircuit(case["n"], num_cbits=case["ncb"])
    for op in case["ops"]:
        if "g" in op:
            code, q = op["g"], op["q"]
            nc = NCTRL[code]
            kw = {}
            if op["cc"] is not None and (not case.get("assign") or op["ccv"] is None):
                kw["classical_controls"] = cc_as(case.get("ccform") if len(op["cc"]) == 1 or
                                                 case.get("ccform") not in ("int", "npint") else None, op["cc"])
                if op["ccv"] is not None:          # None: left at the default of Gate.__init__
                    kw["classical_control_value"] = ccv_as(case.get("ccvtype"), op["ccv"])
            if case.get("path") == "class":
                # through the gate class instead of the gate name
                from qutip_qip import operations as _ops
                cls = getattr(_ops, GATE_NAMES[code])
                qc.add_gate(cls(targets=list(q[nc:]), **({"controls": list(q[:nc])} if nc else {}), **kw))
            elif case.get("path") == "gate":
                from qutip_qip.operations import Gate as _Gate
                qc.add_gate(_Gate(GATE_NAMES[code], targets=list(q[nc:]), controls=(list(q[:nc]) if nc else None), **kw))
            else:
                qc.add_gate(GATE_NAMES[code], targets=list(q[nc:]), controls=(list(q[:nc]) if nc else None), **kw)
            if op["cc"] is not None and case.get("assign") and op["ccv"] is not None:
                # the condition is ASSIGNED on the gate object after add_gate (as circuit/_decompose.py and user code
                # do): the simulator reads the gate's attributes when it executes the gate
                qc.gates[-1].classical_controls = list(op["cc"])
                qc.gates[-1].classical_control_value = op["ccv"]
        else:
            qc.add_measurement("M", targets=[op["m"]], classical_store=op["store"])
    return qc


def ccv_as(kind, v):
    """the classical_control_value `v` as a number of another type (the range contract does not depend on the type)"""
    if kind in (None, "int"):
        return int(v)
    if kind == "bool":
        return bool(v)
    if kind == "arr0":
        return np.array(v)
    return {"i64": np.int64, "i32": np.int32, "u8": np.uint8}[kind](v)


def cc_as(form, cc):
    """the classical controls `cc` (a list) in another container form; a bare (numpy) int only for a single control"""
    if form in (None, "list"):
        return list(cc)
    if form == "tuple":
        return tuple(cc)
    if form == "array":
        return np.array(cc)
    if form == "int":
        return int(cc[0])
    if form == "npint":
        return np.int64(cc[0])
    raise ValueError(form)


def versions_of(case):
    return [case["ops"]] + list(case.get("alts") or [])


def apply_edit(qc, cur_ops, new_ops, how):
    """edit the circuit object IN PLACE so that it reads `new_ops`: one operation appended / inserted at an index
    (add_gate, add_measurement), one removed (remove_gate_or_measurement), or — same number of operations — `assign`
    re-assigns
    targets / controls / classical_controls / classical_control_value of the gate object where the gate keeps its
    name, otherwise (and with `replace`) the operation
    is removed and a new one added at the same position through the public API"""
    def add_op(b, i, append=False):
        idx = {} if append else {"index": [i]}
        if "g" in b:
            nc = NCTRL[b["g"]]
            kw = {}
            if b["cc"] is not None:
                kw["classical_controls"] = list(b["cc"])
                if b["ccv"] is not None:
                    kw["classical_control_value"] = b["ccv"]
            qc.add_gate(GATE_NAMES[b["g"]], targets=list(b["q"][nc:]), controls=(list(b["q"][:nc]) if nc else None),
                        **idx, **kw)
        else:
            qc.add_measurement("M", targets=[b["m"]], classical_store=b["store"], **idx)

    if len(new_ops) == len(cur_ops) + 1:
        # one operation added: appended (no index) or inserted at its position
        i = next((k for k in range(len(cur_ops)) if cur_ops[k] != new_ops[k]), len(cur_ops))
        if cur_ops[i:] != new_ops[i + 1:]:
            raise ValueError("edit: not a single insertion")
        add_op(new_ops[i], i, append=(i == len(cur_ops) and how != "replace"))
        return
    if len(new_ops) == len(cur_ops) - 1:
        i = next((k for k in range(len(new_ops)) if cur_ops[k] != new_ops[k]), len(new_ops))
        if cur_ops[i + 1:] != new_ops[i:]:
            raise ValueError("edit: not a single removal")
        qc.remove_gate_or_measurement(index=i)
        return
    if len(new_ops) != len(cur_ops):
        raise ValueError("edit: more than one operation added or removed")
    for i, (a, b) in enumerate(zip(cur_ops, new_ops)):
        if a == b:
            continue
        if how == "assign" and "m" in a and "m" in b:
            # the Measurement object keeps its place, target and classical_store are re-assigned
            qc.gates[i].targets = [b["m"]]
            qc.gates[i].classical_store = b["store"]
            continue
        if how == "assign" and "g" in a and "g" in b and a["g"] == b["g"]:
            nc = NCTRL[b["g"]]
            g = qc.gates[i]
            g.targets = list(b["q"][nc:])
            if nc:
                g.controls = list(b["q"][:nc])
            if (a["cc"], a["ccv"]) != (b["cc"], b["ccv"]):
                g.classical_controls = None if b["cc"] is None else list(b["cc"])
                g.classical_control_value = (None if b["cc"] is None else
                                             (b["ccv"] if b["ccv"] is not None else 2 ** len(b["cc"]) - 1))
            continue
        qc.remove_gate_or_measurement(index=i)
        if "g" in b:
            nc = NCTRL[b["g"]]
            kw = {}
            if b["cc"] is not None:
                kw["classical_controls"] = list(b["cc"])
                if b["ccv"] is not None:
                    kw["classical_control_value"] = b["ccv"]
            qc.add_gate(GATE_NAMES[b["g"]], targets=list(b["q"][nc:]), controls=(list(b["q"][:nc]) if nc else None),
                        index=[i], **kw)
        else:
            qc.add_measurement("M", targets=[b["m"]], classical_store=b["store"], index=[i])


def init_qobj(st, n, mode):
    import qutip
    v = state_to_np({"k": 0, "vecs": st["vecs"]}, "sv")
    ket = qutip.Qobj(v.reshape(-1, 1), dims=[[2] * n, [1] * n])
    return qutip.ket2dm(ket) if mode == "dm" else ket


class Instrument:
    """Logs which operations the real simulator executes and scripts np.random.choice.
    Nothing in /repo is modified: methods of the imported class are wrapped in-process and restored."""

    def __init__(self, rng, track=None):
        self.rng = rng
        self.events = []
        self.picks = []
        self.track = track       # only this simulator object is logged (None = all)

    def __enter__(self):
        from qutip_qip.circuit import circuitsimulator as cs
        self.cs = cs
        C = cs.CircuitSimulator
        self.saved = (C._evolve_state_einsum, C._evolve_state, C._apply_measurement, C.step, np.random.choice)
        inst = self

        def w_einsum(self_, gate, state):
            r = inst.saved[0](self_, gate, state)      # exceptions propagate: no event, as in the model
            if inst.track is None or self_ is inst.track:
                inst.events.append("f%d" % (self_._op_index - 1))
            return r

        def w_evolve(self_, op, state):
            r = inst.saved[1](self_, op, state)
            if inst.track is None or self_ is inst.track:
                inst.events.append("f%d" % (self_._op_index - 1))
            return r

        def w_meas(self_, op, state):
            if not (inst.track is None or self_ is inst.track):
                return inst.saved[2](self_, op, state)
            idx = self_._op_index - 1
            npk = len(inst.picks)
            mi = self_._measure_ind
            r = inst.saved[2](self_, op, state)       # exceptions propagate: no event, as in the model
            if self_.mode == "density_matrix_simulator":
                inst.events.append("d%d" % idx)
            elif self_._measure_ind > mi:
                inst.events.append("m%d=%d" % (idx, int(self_._measure_results[mi])))
            else:
                inst.events.append("m%d=%d" % (idx, inst.picks[npk]))
            return r

        def w_step(self_):
            if not (inst.track is None or self_ is inst.track):
                return inst.saved[3](self_)
            idx = getattr(self_, "_op_index", None)
            n0 = len(inst.events)
            r = inst.saved[3](self_)
            if len(inst.events) == n0 and idx is not None:
                inst.events.append("s%d" % idx)
            return r

        def choice(a, p=None, **kw):
            ok = [i for i in range(len(a)) if p is None or p[i] > 1e-12]
            i = inst.rng.choice(ok)
            inst.picks.append(int(a[i]))
            return np.int64(a[i])

        C._evolve_state_einsum, C._evolve_state, C._apply_measurement, C.step = w_einsum, w_evolve, w_meas, w_step
        np.random.choice = choice
        return self

    def __exit__(self, *a):
        C = self.cs.CircuitSimulator
        C._evolve_state_einsum, C._evolve_state, C._apply_measurement, C.step, np.random.choice = self.saved
        return False

    def take(self):
        ev, self.events = self.events, []
        return ev


def qobj_np(x):
    if x is None:
        return None
    return np.asarray(x.full() if hasattr(x, "full") else x)


class AliasMap:
    """Names list objects: caller lists by their index, others `n0, n1, …` in order of first appearance."""

    def __init__(self, lists):
        self.ids = {id(l): i for i, l in enumerate(lists)}
        self.fresh = {}
        self.keep = []

    def name(self, obj):
        if obj is None:
            return None
        if id(obj) in self.ids:
            return self.ids[id(obj)]
        if id(obj) not in self.fresh:
            self.fresh[id(obj)] = "n%d" % len(self.fresh)
            self.keep.append(obj)         # keep alive so that ids stay unique
        return self.fresh[id(obj)]


class RefMap:
    """Same naming for the model's references (refs < L are the caller's lists)."""

    def __init__(self, L):
        self.L = L
        self.fresh = {}

    def name(self, r):
        if r is None:
            return None
        if r < self.L:
            return r
        if r not in self.fresh:
            self.fresh[r] = "n%d" % len(self.fresh)
        return self.fresh[r]


def run_impl(case, rng, qc=None, observer=None, handlers=None):
    """Run the case's calls on one shared CircuitSimulator.  Returns (chunks, world, picks) in a form
    comparable with the model's answer, or ("err", kind) if the circuit cannot be built."""
    from qutip_qip.circuit import CircuitSimulator
    if qc is None:
        try:
            qc = build_circuit(case)
        except Exception as e:
            return ("err", err_name(e))
    mode = {"sv": "state_vector_simulator", "dm": "density_matrix_simulator"}[case["mode"]]
    sim = CircuitSimulator(qc, mode=mode)
    lists = [list(l) for l in case["lists"]]
    inits = [init_qobj(s, case["n"], case["mode"]) for s in case["inits"]]
    am = AliasMap(lists)
    chunks = []
    seen_lists = {}
    objs = {"lists": lists, "sim": sim, "qc": qc, "inits": inits, "ops": case["ops"]}
    versions = versions_of(case)
    with Instrument(rng, track=sim) as inst:
        for j, c in enumerate(case["calls"]):
            if observer:
                observer(j, c, "before", objs, None)
            try:
                if handlers and c[0] in handlers:
                    chunks.append(handlers[c[0]](objs, c))
                elif c[0] in ("run", "stat"):
                    cb = None if c[2] is None else lists[c[2]]
                    if c[0] == "run":
                        mr = None if c[3] is None else tuple(c[3])
                        res = sim.run(inits[c[1]], cbits=cb, measure_results=mr)
                    else:
                        res = sim.run_statistics(inits[c[1]], cbits=cb)
                    cbs = None
                    if hasattr(res, "cbits"):
                        cbs = [(am.name(x), None if x is None else [int(v) for v in x]) for x in res.cbits]
                    chunks.append({"kind": "R", "states": [qobj_np(s) for s in res.final_states],
                                   "probs": [float(p) for p in res.probabilities], "cbits": cbs,
                                   "res": res, "events": inst.take()})
                    if cbs is not None:
                        for x in res.cbits:
                            if x is not None and am.name(x) not in seen_lists:
                                seen_lists[am.name(x)] = x
                elif c[0] == "init":
                    cb = None if c[2] is None else lists[c[2]]
                    sim.initialize(inits[c[1]], cbits=cb, measure_results=None if c[3] is None else tuple(c[3]))
                    inst.take()
                    chunks.append({"kind": "I"})
                elif c[0] == "step":
                    sim.step()
                    chunks.append({"kind": "S", "events": inst.take()})
                elif c[0] == "state":
                    st_obj = sim.state
                    chunks.append({"kind": "G", "state": qobj_np(st_obj), "obj": st_obj})
                elif c[0] == "edit":
                    apply_edit(qc, objs["ops"], versions[c[1]], c[2] if len(c) > 2 else "replace")
                    objs["ops"] = versions[c[1]]
                    chunks.append({"kind": "X"})
                else:
                    raise ValueError("call " + str(c))
            except Exception as e:
                chunks.append({"kind": "E", "err": err_name(e), "events": inst.take(), "exc": repr(e)[:200]})
            chunks[-1]["heap"] = [[int(v) for v in l] for l in lists]
            if observer:
                observer(j, c, "after", objs, chunks[-1])
        picks = list(inst.picks)
    # every state object handed out during the history is compared again at the END with the value it had when it was
    # returned: later calls must not rewrite it
    def _same(a, b):
        return (a is None and b is None) or (a is not None and b is not None and a.shape == b.shape and np.array_equal(a, b))
    for ch in chunks:
        if ch["kind"] == "G" and "obj" in ch:
            if not _same(qobj_np(ch["obj"]), ch["state"]):
                ch["kept_changed"] = True
        elif ch["kind"] == "R" and "res" in ch:
            now = [qobj_np(s) for s in ch["res"].final_states]
            if len(now) != len(ch["states"]) or not all(_same(a, b) for a, b in zip(now, ch["states"])):
                ch["kept_changed"] = True
    simw = None
    if hasattr(sim, "_op_index"):
        mr = sim._measure_results
        raw = sim._state
        if raw is None or hasattr(raw, "full"):
            form = "q"
        elif raw.shape == tuple(sim._tensor_dims):
            form = "t"
        elif raw.shape == tuple(sim._state_mat_shape):
            form = "m"
        else:
            form = "g"
        simw = {"cbits": (am.name(sim.cbits), None if sim.cbits is None else [int(v) for v in sim.cbits]),
                "state": qobj_np(raw), "form": form, "prob": float(sim._probability), "op_index": sim._op_index,
                "mixed": sorted(int(x) for x in getattr(sim, "_mixed_cbits", ())),
                "mres": None if mr is None else [int(x) for x in mr], "mind": sim._measure_ind}
    world = {"heap": [[int(v) for v in l] for l in lists], "sim": simw,
             "result_lists": {k: [int(v) for v in l] for k, l in seen_lists.items()}}
    return ("ok", chunks, world, picks, objs)


def _state_eq(model_st, impl_np, mode, tol=1e-9):
    if model_st is None or impl_np is None:
        return model_st is None and impl_np is None
    exp = state_to_np(model_st, mode)
    got = impl_np.reshape(exp.shape) if impl_np.size == exp.size else impl_np
    return got.shape == exp.shape and np.allclose(got, exp, atol=tol, rtol=0)


def _prob_eq(fr, fl, exact):
    if exact:
        return float(fr) == fl       # basis state, no SNOT: every probability is exactly 0.0 or 1.0
    # (relative for small probabilities: a record of probability 2^-28 must not pass as 0)
    return abs(float(fr) - fl) <= 1e-9 * max(float(fr), 1e-3)


def compare(case, model, impl):
    """-> None if equal, else a short description of the first difference"""
    if model[0] != "ok" or impl[0] != "ok":
        if model[0] == "err" and impl[0] == "err" and model[1] == impl[1]:
            return None
        return f"construction verdicts differ: model {model[:2]} impl {impl[:2]}"
    _, mch, mw = model
    _, ich, iw, _picks, _objs = impl
    mode = case["mode"]
    exact = all(("g" not in o) or o["g"] != 4 for ops in versions_of(case) for o in ops) and all(
        sum(1 for v in s["vecs"] for a in v if a != 0) == 1 for s in case["inits"])
    rm = RefMap(len(case["lists"]))
    final_model = {}
    if len(mch) != len(ich):
        return "number of call results"
    for j, (m, i) in enumerate(zip(mch, ich)):
        if m.get("garbage"):
            # `_state` has become an array of a wrong shape (stepping after the `state` property stored a
            # matrix-shaped array): outside the modelled domain from here on; the case is tagged
            case["_garbage"] = True
            return None
        if i.get("kept_changed"):
            return (f"call {j}: the state object(s) returned by this call were changed by LATER calls (value at the end of "
                    f"the history differs from the value when returned)")
        if m["heap"] != i["heap"]:
            return f"call {j}: caller's lists after the call model={m['heap']} impl={i['heap']}"
        if m["kind"] != i["kind"]:
            return f"call {j}: kind model={m['kind']}{m.get('err', '')} impl={i['kind']}{i.get('err', '')} {i.get('exc', '')}"
        if m["kind"] == "E" and m["err"] != i["err"]:
            return f"call {j}: exception model={m['err']} impl={i['err']} {i.get('exc', '')}"
        if "events" in m and m["events"] != i["events"]:
            return f"call {j}: executed operations model={m['events']} impl={i['events']}"
        if m["kind"] == "G" and not _state_eq(m["state"], i["state"], mode):
            return f"call {j}: value of the state property"
        if m["kind"] == "R":
            if len(m["states"]) != len(i["states"]) or len(m["probs"]) != len(i["probs"]):
                return f"call {j}: number of results model={len(m['states'])} impl={len(i['states'])}"
            for a, (ms, is_) in enumerate(zip(m["states"], i["states"])):
                if not _state_eq(ms, is_, mode):
                    return f"call {j}: final state {a}"
            for a, (mp, ip) in enumerate(zip(m["probs"], i["probs"])):
                if not _prob_eq(mp, ip, exact):
                    return f"call {j}: probability {a} model={mp} impl={ip!r}"
            if (m["cbits"] is None) != (i["cbits"] is None):
                return f"call {j}: presence of result.cbits"
            if m["cbits"] is not None:
                mn = [(rm.name(r), v) for r, v in m["cbits"]]
                for r, _v in m["cbits"]:
                    if r is not None:
                        final_model[rm.name(r)] = mw["heap"][r]
                if mn != i["cbits"]:
                    return f"call {j}: result.cbits (identity, value at return) model={mn} impl={i['cbits']}"
    L = len(case["lists"])
    if final_model != iw["result_lists"]:
        return f"cbits lists held by results, after the history: model={final_model} impl={iw['result_lists']}"
    if mw["heap"][:L] != iw["heap"]:
        return f"caller's lists after the history model={mw['heap'][:L]} impl={iw['heap']}"
    ms, is_ = mw["sim"], iw["sim"]
    if (ms is None) != (is_ is None):
        return "simulator initialised?"
    if ms is not None:
        if rm.name(ms["cbits"]) != is_["cbits"][0]:
            return f"sim.cbits identity model={rm.name(ms['cbits'])} impl={is_['cbits'][0]}"
        if ms["cbits"] is not None and mw["heap"][ms["cbits"]] != is_["cbits"][1]:
            return f"sim.cbits value model={mw['heap'][ms['cbits']]} impl={is_['cbits'][1]}"
        if not _state_eq(ms["state"], is_["state"], mode):
            return "sim._state"
        if not _prob_eq(ms["prob"], is_["prob"], exact):
            return f"sim._probability model={ms['prob']} impl={is_['prob']}"
        ms = dict(ms, mixed=sorted(set(ms["mixed"])))
        for k in ("op_index", "mres", "mind", "form", "mixed"):
            if ms[k] != is_[k]:
                return f"sim.{k} model={ms[k]} impl={is_[k]}"
    return None


# ------------------------------------------------------------------------------------------
# generators

def rand_gate(rng, n, ncb, big_ccv=0.08, p_cc=0.45, p_default=0.0):
    codes = [c for c in GATE_ARITY if GATE_ARITY[c] <= n]
    code = rng.choice(codes)
    q = rng.sample(range(n), GATE_ARITY[code])
    cc, ccv = None, 0
    if ncb > 0 and rng.random() < p_cc:
        k = rng.randint(1, ncb)
        cc = rng.sample(range(ncb), k) if rng.random() < 0.85 else [rng.randrange(ncb) for _ in range(k)]
        ccv = rng.randrange(2 ** len(cc))
        if rng.random() < big_ccv:
            ccv = 2 ** len(cc) + rng.randrange(2 ** len(cc) + 1)
        elif rng.random() < p_default:
            ccv = None            # classical_control_value left at its default
    elif rng.random() < 0.03:
        cc, ccv = [], 0
    return {"g": code, "q": q, "cc": cc, "ccv": ccv}


def rand_circuit(rng, n, ncb, nops, maxm, big_ccv=0.08, p_default=0.0):
    ops, m = [], 0
    for _ in range(nops):
        r = rng.random()
        if r < 0.35 and m < maxm:
            store = None
            if ncb > 0 and rng.random() < 0.9:
                store = rng.randrange(ncb)
            ops.append({"m": rng.randrange(n), "store": store})
            m += 1
        else:
            ops.append(rand_gate(rng, n, ncb, big_ccv, p_default=p_default))
    return ops


def rand_init(rng, n, kind=None):
    D = 2 ** n
    kind = kind or rng.choice(["basis", "basis", "real", "complex"])
    if kind == "basis":
        v = [0] * D
        v[rng.randrange(D)] = 1
        return {"k": 0, "vecs": [v]}
    while True:
        v = [rng.randint(-3, 3) if rng.random() < 0.7 else 0 for _ in range(D)]
        w = [rng.randint(-3, 3) if rng.random() < 0.5 else 0 for _ in range(D)]
        if any(v):
            break
    return {"k": 0, "vecs": [v] if kind == "real" else [v, w]}


def num_meas(case):
    return sum(1 for o in case["ops"] if "m" in o)


def all_records(m):
    import itertools
    return [list(r) for r in itertools.product([0, 1], repeat=m)]
