"""C11 -- pulse schedules are physically valid timetables.

Correspondence of lean/QipVerif/Model/Sched.lean (exe drv_sched) with
qutip_qip.compiler.scheduler.Scheduler.schedule on lists of timed Instruction objects (start times
compared exactly as integers over the common denominator 2^20), and the direct statement of the
five timetable clauses on the real code."""
import itertools, random, time

from vlib.core import PropertyCheck
from . import sched_common as sc
from .c05 import gate_obj, fields_of, specs_from, used_mismatch

KNOWN_WITNESS = {"ins": [["CNOT", [1], [0], None], ["SNOT", [2], [], None], ["CNOT", [2], [0], None]],
                 "durs": [10, 1, 1], "den": 1, "method": "ASAP", "perm": True, "shuf": None, "scope": "full"}

TOL = 1e-9


def duration_stream(rng, n, kind):
    """integer numerators over DEN = 2^20; every partial sum stays below 2^53 / DEN so that the
    implementation's float arithmetic is exact"""
    if kind == "dyadic":
        return [rng.randint(1, 1 << 14) << 10 for _ in range(n)]
    if kind == "equal":
        d = rng.choice([1, sc.DEN, 3 << 18, 1 << 40])
        return [d] * n
    if kind == "tiny":
        return [1 if rng.random() < 0.5 else rng.randint(1, 1 << 10) << 10 for _ in range(n)]
    if kind == "huge":
        return [1 << 40 if rng.random() < 0.5 else rng.randint(1, 1 << 10) << 10 for _ in range(n)]
    if kind == "tinyhuge":
        return [rng.choice([1, 2, 3, 1 << 40, 3 << 39]) for _ in range(n)]
    if kind == "small":
        return [rng.choice([1, 2, 3]) * sc.DEN for _ in range(n)]
    raise ValueError(kind)


KINDS = ["dyadic", "dyadic", "equal", "tiny", "huge", "tinyhuge", "small"]


def timetable_checks(specs, durs, starts, perm, scope, tol=0.0, cycles=None, cons=None):
    """The five clauses of C11 on start times returned by the real code -> None or a description.

    Commutation is decided by the gates' actual matrices (`sc.truly_commute`), never by the code's rule.
    For every pair i < j that shares a qubit:
      * allow_permutation=False: j must not start before i has finished;
      * the two do NOT truly commute: j must not start before i has finished -- except, in scope "covered", the
        class of the C05 known finding (same name and equal targets / equal non-empty controls, family that does
        not commute with itself), which the documented rule declares commuting;
      * they truly commute: they must not overlap -- except, in scope "covered", pairs the DOCUMENTED rule
        (`sc.documented_rule`, a fixed reference copy) declares commuting: that is the class of the C11 known finding
        (no dependency edge, and conflict edges are recorded only against the members of the cycle at the moment a
        candidate is examined -- so it also contains pairs that were candidates in the same round);
      * two instructions of one cycle must never overlap.
    The documented rule is consulted ONLY to delimit the recorded known-finding classes on a tree without the repairs
    (never to demand an order between gates that commute physically).
    Scope "full" evaluates ordering for every non-commuting pair and overlap for every pair.
    `cons`: the constraint descriptors the Scheduler was built with (None = default).  The overlap clauses are required when
    `qubit_constraint` is among them (first, last, anywhere); without it only the ordering of non-commuting pairs, the
    earliest start and the makespan are required (C11.timetable_cons_any)."""
    n = len(specs)
    if len(starts) != n:
        return f"{len(starts)} start times for {n} instructions"
    if min(starts) < -tol:
        return f"negative start time {min(starts)}"
    if abs(min(starts)) > tol:
        return f"earliest start is {min(starts)}, not 0"
    used = [sc.used_of(s) for s in specs]
    where = {}
    for ci, c in enumerate(cycles or []):
        for i in c:
            where[i] = ci

    def overlap(i, j):
        return starts[i] < starts[j] + durs[j] - tol and starts[j] < starts[i] + durs[i] - tol

    for i in range(n):
        for j in range(i + 1, n):
            if not (used[i] & used[j]):
                continue
            a, b = specs[i], specs[j]
            declared = bool(perm) and sc.documented_rule(a, b)
            commute = bool(perm) and sc.truly_commute(a, b)
            same_cycle = i in where and where.get(i) == where.get(j)
            if not sc.cons_has_qubit(cons):
                if not commute and not (scope == "covered" and declared and sc.tree_unrepaired()) \
                        and starts[j] < starts[i] + durs[i] - tol:
                    return (f"instruction {j} ({b[0]} {b[1]} {b[2]}) starts at {starts[j]} before the earlier instruction {i} "
                            f"({a[0]} {a[1]} {a[2]}; start {starts[i]}, duration {durs[i]}), with which it does not commute, "
                            "has finished")
                continue
            if same_cycle and overlap(i, j):
                return (f"instructions {i} and {j} are in one cycle, share qubit(s) {sorted(used[i] & used[j])} and overlap")
            if not commute:
                if scope == "covered" and declared and sc.tree_unrepaired():
                    continue        # C05 known classes, only on a tree WITHOUT the repairs: declared commuting although the
                                    # matrices do not commute (same-name non-self-commuting families / targets-only TOFFOLI)
                if starts[j] < starts[i] + durs[i] - tol:
                    return (f"instruction {j} ({b[0]} {b[1]} {b[2]}) starts at {starts[j]} before the earlier instruction {i} "
                            f"({a[0]} {a[1]} {a[2]}; start {starts[i]}, duration {durs[i]}), with which it does not commute, "
                            "has finished")
            else:
                if scope == "covered" and declared and not sc.conflict_fix_flag():
                    continue        # C11 known class: overlap of a pair declared commuting (tree without the repair)
                if overlap(i, j):
                    return (f"instructions {i} and {j} share qubit(s) {sorted(used[i] & used[j])} and overlap: "
                            f"[{starts[i]}, {starts[i] + durs[i]}) and [{starts[j]}, {starts[j] + durs[j]})")
    if max(s + d for s, d in zip(starts, durs)) > sum(durs) + tol:
        return f"makespan {max(s + d for s, d in zip(starts, durs))} exceeds sequential duration {sum(durs)}"
    return None


def interleaved_shapes(full=False):
    """sc.interleave_shapes (a gate of every one-qubit name, IDLE included, between two non-commuting gates on one qubit)
    with three duration patterns -> (sequence, duration numerators)"""
    for k, seq in enumerate(sc.interleave_shapes(full=full)):
        n = len(seq)
        for d in ([1] * n, [1 + (i * 3 + k) % 4 for i in range(n)], [5] + [1] * (n - 1)):
            yield seq, d


TWO_TARGET = ["SWAP", "ISWAP", "SQRTSWAP", "SQRTISWAP", "SWAPALPHA", "BERKELEY", "MS", "RZX"]


def priority_shapes():
    """Same-name control-less two-target gates overlapping on exactly one qubit, followed by a long gate on the
    later one's other qubit (which gives the later one the higher priority); mirrored for ALAP.  Also a controlled
    variant and a chain of three.  Yields (sequence of (name, targets, controls), duration numerators)."""
    for name in TWO_TARGET + ["CNOT", "CZ", "CRX"]:
        if name in TWO_TARGET:
            g1, g2 = (name, [0, 1], []), (name, [1, 2], [])
        else:
            g1, g2 = (name, [1], [0]), (name, [2], [1])
        for tail in (("SNOT", [2], []), ("RX", [2], []), ("X", [2], [])):
            for d in ((1, 1, 5), (1, 2, 7), (3, 1, 4)):
                yield [g1, g2, tail], list(d)
                yield [tail, g2, g1], [d[2], d[1], d[0]]
        if name in TWO_TARGET:
            yield [(name, [0, 1], []), (name, [1, 2], []), (name, [2, 3], []), ("SNOT", [3], [])], [1, 1, 1, 6]
            yield [("SNOT", [3], []), (name, [2, 3], []), (name, [1, 2], []), (name, [0, 1], [])], [6, 1, 1, 1]


class C11(PropertyCheck):
    id = "C11"

    def regenerate(self, ctx):
        return sc.regenerate()

    lean_modules = ["QipVerif.Props.C11"]
    drivers = ["drv_sched"]
    theorems = [
        "QipVerif.C11.pulseStarts_eq",
        "QipVerif.C11.real_oracle_perm",
        "QipVerif.C11.starts_length",
        "QipVerif.C11.start_nonneg",
        "QipVerif.C11.min_start_zero",
        "QipVerif.C11.dep_respected",
        "QipVerif.C11.makespan_le_sum",
        "QipVerif.C11.no_overlap_pair_partial",
        "QipVerif.C11.no_overlap_same_cycle",
        "QipVerif.C11.no_overlap_partial",
        "QipVerif.C11.no_overlap_without_permutation",
        "QipVerif.C11.no_overlap_fixed",
        "QipVerif.C11.timetable_valid_fixed",
        "QipVerif.C11.tree_conflict_fix",
        "QipVerif.C11.timetable_valid_tree",
        "QipVerif.C11.constraints_default",
        "QipVerif.C11.timetable_cons_any",
        "QipVerif.C11.no_overlap_cons",
        "QipVerif.C11.C11_constraints_absent",
        "QipVerif.C11.C11_counterexample_starts",
        "QipVerif.C11.C11_counterexample_overlap",
        "QipVerif.C11.C11_counterexample_no_overlap",
    ]
    level_text = ("Lean 4 theorems about the model of the pulse scheduler, for EVERY list of timed instructions with non-negative "
                  "(in particular arbitrary positive) durations -- integers over a common denominator --, ASAP and ALAP, permutation "
                  "allowed or not, and every permutation-valued re-ordering oracle of the scheduling pass (covers random_shuffle, the "
                  "priority sort and the iteration order of the successor sets). For the repaired recording of hardware-conflict edges "
                  "(an approved candidate gets an edge from every already executed instruction it shares a qubit with; the tree under "
                  "test has it: tree_conflict_fix, regenerated from the source with ast) ALL FIVE clauses are theorems at full strength, "
                  "bundled in timetable_valid_fixed (oracle-parametrised model) and timetable_valid_tree (the executable model the "
                  "correspondence compares with the code): start times are non-negative (start_nonneg); the earliest start is 0 for a "
                  "non-empty list (min_start_zero); an instruction starts only after every earlier qubit-sharing instruction that "
                  "commutation_rules does not declare commuting with it has finished (dep_respected, longest-path inequality; every "
                  "earlier qubit-sharing instruction when allow_permutation=False); no instruction finishes later than the sum of all "
                  "durations (makespan_le_sum); no two distinct instructions sharing a qubit have intersecting execution intervals "
                  "(no_overlap_fixed: noOverlap = true, no hypothesis besides durations >= 0). The first four clauses are proved for "
                  "both variants of the recording. For the code BEFORE the repair the no-overlap clause is refuted "
                  "(C11_counterexample_starts / _overlap / _no_overlap: [CNOT(0->1) d=10, SNOT(2) d=1, CNOT(0->2) d=1], ASAP => starts "
                  "[0,0,1]) and proved in partial form (no_overlap_partial: no qubit-sharing pair declared commuting; "
                  "no_overlap_without_permutation); the witness is replayed on the code on every check as a regression test of the fixed "
                  "finding. The model is tied to the code by an exact comparison of start times (dyadic durations incl. equal / 2^-20 / "
                  "2^20 mixtures) and cycles, exhaustive for short lists over a small alphabet with two durations, with recorded "
                  "shuffles and with histories of up to 6 calls on one Scheduler object; the commutation rule and the conflict-edge "
                  "flag of the model are regenerated from scheduler.py (Gen/SchedRule.lean, shared with C05). CONSTRUCTOR ARGUMENTS "
                  "(method tests and apply_constraint regenerated, C05.method_contract / apply_constraint_is_conjunction): for EVERY list "
                  "of constraint functions timetable_cons_any (non-negative starts, earliest 0, dependency inequality, makespan bound), "
                  "no_overlap_cons whenever qubit_constraint is in the list (first, last, anywhere; repaired recording), and "
                  "C11_constraints_absent (without it two instructions on one qubit both start at 0); the correspondence and the oracles "
                  "run 21 method values x 21 constraint lists.")
    level_note = ("All five clauses proved at full strength for the tree under test (both methods, both permutation settings, every "
                  "oracle, all non-negative integer durations over a common denominator). `dep_respected` speaks about the pairs the "
                  "code's rule does not declare commuting; that the declared pairs really commute is C05 (schedule_den_C_full). The "
                  "partial theorems and the counter-examples describe the old recording only. Trusted: Lean kernel; the translator "
                  "py/translate/sched.py; the harness; exactness of float arithmetic on the generated dyadic durations (arbitrary float "
                  "durations are only exercised by the oracle with a tolerance); stability of Python's list.sort.")
    technique = ("Lean 4 proof (the returned cycles are a topological order of dependency + conflict edges; longest-path recurrence "
                 "along it, for an arbitrary re-ordering oracle) + rule / conflict-edge variant regenerated from the source + "
                 "model/implementation correspondence with exact start times")
    trusted_base = [
        "Lean 4.33 kernel; axioms propext, Classical.choice, Quot.sound",
        "py/translate/sched.py (ast translator of commutation_rules, _SELF_COMMUTING_GATES and of the conflict-edge recording "
        "(`executed` parameter, its loop in the approval branch, the argument passed by find_topological_order) into "
        "Gen/SchedRule.lean)",
        "py/props/sched_common.py, py/props/c11.py, py/props/c05.py (harness; shadows `set` and `shuffle` in the scheduler "
        "module's namespace, /repo itself is untouched)",
        "durations are given to the model as integer numerators over 2^20; the implementation's float arithmetic is exact "
        "on the generated durations (all partial sums below 2^53), so equality of start times is exact",
        "Python's list.sort is a stable sort for the total preorder _compare_priority",
    ]
    assumptions = [
        "durations are non-negative numbers with a common denominator (the code only adds, subtracts, compares and maximises "
        "them; rounding of arbitrary floats is outside the model); min_start_zero needs a non-empty list",
        "at least one instruction uses a qubit (otherwise the code raises ValueError from max() of an empty set; model: err noqubits)",
        "Scheduler.schedule is a function of its arguments, the constructor settings and the shuffle outcomes (the model is "
        "stateless); checked by histories of several calls on one Scheduler object, also on the same Instruction list edited in place",
        "no-overlap is provided by qubit_constraint and is claimed only when it is among the constraint functions; user constraint "
        "functions are modelled for four kinds (qubit_constraint, allow everything, forbid one ordered index pair, forbid equal names)",
    ]
    rule = ("case = (instruction list as (name, targets, controls, duration numerator), method, allow_permutation, recorded "
            "shuffles, calls made before on the same Scheduler object); non-trivial = at least two instructions sharing a qubit; start times and cycles compared exactly")

    # ----------------------------------------------------------------------------------
    def _run_batch(self, ctx, res, batch, tag):
        """batch: (specs, durs, method, perm, shuffle).  About a third of the cases are run on a Scheduler object shared with
        the preceding cases of the same setting (a history of up to 8 calls, pulse output and cycles output alternating); half
        of those are followed by a case that re-schedules the SAME list of Instruction objects after it was edited in place
        (instruction replaced / inserted / removed, a duration re-assigned).  The model is stateless, so each result must be
        what the model answers for the content of the list at that call."""
        rng = ctx.rng
        lines, impl, cases = [], [], []
        chain = self._chain

        def chained(specs, durs, method, perm, shuffle, sch, hist, store, oid, edits):
            log = sc.ShuffleLog(rng) if shuffle else None
            c1 = {"kind": "pulse", "ins": specs, "durs": durs, "den": sc.DEN, "shuf": None, "cycles": False,
                  "obj": oid, "edits": edits}
            st, starts = sc.run_call(sch, c1, method, perm, store=store, log=log)
            shuf = log.log if log else None
            c1["shuf"] = shuf
            hist.append(c1)
            cyc = None
            if st == "ok":
                c2 = dict(c1, cycles=True, edits=[])
                st, cyc = sc.run_call(sch, c2, method, perm, store=store)
                hist.append(c2)
            return st, starts, cyc, shuf, list(hist)

        for specs, durs, method, perm, shuffle, *rest in batch:
            cons = rest[0] if rest else None
            derived = None
            if specs and rng.random() < 0.35:
                sch, hist = chain.get(method, perm, 4, cons)
                store, oid = chain.objects(method, perm, cons), chain.new_id()
                r = chained(specs, durs, method, perm, shuffle, sch, hist, store, oid, [])
                if r[0] == "ok" and rng.random() < 0.5:
                    N = 1 + max(q for x in specs for q in list(x[1]) + list(x[2]))
                    if N not in self._pools:
                        self._pools[N] = sc.placements(N)
                    edits = sc.random_edits(rng, specs, N, self._pools[N], durs=durs, dur_choices=sorted(set(durs)))
                    specs2, durs2 = sc.edited_specs(specs, edits, durs)
                    if specs2 and any(sc.used_of(x) for x in specs2):
                        derived = (specs2, durs2, chained(specs2, durs2, method, perm, shuffle, sch, hist, store, oid, edits))
            else:
                form = "npint" if rng.random() < 0.12 else "list"
                try:
                    ins = sc.make_instructions(specs, durs, form)
                    if any(i.duration * sc.DEN != d for i, d in zip(ins, durs)):
                        raise AssertionError("duration not exact")
                except AssertionError:
                    raise
                except Exception as e:      # Instruction() is part of the code under test
                    r = ("other:" + type(e).__name__, None, None, None, None)
                else:
                    log = sc.ShuffleLog(rng) if shuffle else None
                    st, starts = sc.impl_schedule(ins, method, perm, log, cons=cons, random_shuffle=bool(shuffle))
                    shuf = log.log if log else None
                    cyc = None
                    if st == "ok":
                        log2 = sc.ShuffleLog(replay=log.log) if log else None
                        st, cyc = sc.impl_schedule(ins, method, perm, log2, cons=cons, return_cycles_list=True,
                                                   random_shuffle=bool(shuffle))
                    r = (st, starts, cyc, shuf, None if form == "list" else form)
            for sp, du, rr, edited in ((specs, durs, r, False),) + (((derived[0], derived[1], derived[2], True),) if derived else ()):
                cases.append((sp, du, method, perm, shuffle, edited, cons))
                impl.append(rr)
                lines.append(sc.model_line(method, perm, [fields_of(x) + (d,) for x, d in zip(sp, du)], rr[3], cons))
        outs = ctx.driver("drv_sched").run(lines)
        for (specs, durs, method, perm, shuffle, edited, cons), o, (st, starts, cyc, shuf, hist) in zip(cases, outs, impl):
            used = [sc.used_of(s) for s in specs]
            nontriv = any(used[i] & used[j] for i in range(len(specs)) for j in range(i + 1, len(specs)))
            inp = {"ins": [[s[0], s[1], s[2], d] for s, d in zip(specs, durs)], "method": method, "perm": perm, "shuf": shuf}
            form = "list"
            if isinstance(hist, str):            # container form of targets / controls of a non-chained case
                form, hist = hist, None
                inp["form"] = form
            if hist is not None:
                inp["calls_before_on_this_scheduler"] = [
                    [[g[0], g[1], g[2], d] for g, d in zip(c["ins"], c["durs"])] + [c["cycles"], c["obj"], c["edits"]]
                    for c in hist[:-2]]
            if cons is not None:
                inp["constraint_functions"] = cons
            res.case(inp, nontrivial=nontriv, tags=[tag, f"len={len(specs)}", f"method={method!r}", f"perm={int(perm)}",
                                                    f"shuffle={int(bool(shuffle))}",
                                                    "history=%d" % (0 if hist is None else min(len(hist), 8)),
                                                    "constraints=" + ("default" if cons is None else
                                                                      "+".join(c if isinstance(c, str) else "f" for c in cons) or "none")]
                     + (["edited-in-place"] if edited else []))
            if hist is None:
                w = {"ins": specs, "durs": durs, "den": sc.DEN, "method": method, "perm": perm, "shuf": shuf, "scope": "covered"}
            else:
                w = {"history": hist, "method": method, "perm": perm, "scope": "covered"}
            if cons is not None:
                w["cons"] = cons
            if form != "list":
                w["form"] = form
            m = sc.parse_model(o)
            mm = used_mismatch(specs)
            if mm:
                res.disagree(inp, mm[0], mm[1], "used_qubits of an instruction", w)
            if m["status"] != "ok" or st != "ok":
                if m["status"] != st:
                    res.disagree(inp, m["status"], st, "verdict", w)
                continue
            got = [sc.exact_num(x) for x in starts]
            if m["starts"] != got:
                note = ""
                if perm and cyc:
                    from .c05 import order_note
                    note = order_note(specs, cyc)
                res.disagree(inp, m["starts"], got, "start times (numerators over 2^20)" + note, w)
            elif m["cycles"] != cyc:
                res.disagree(inp, m["cycles"], cyc, "cycles list", w)
            elif shuf is not None and m["used"] != len(shuf):
                res.disagree(inp, m["used"], len(shuf), "number of shuffle calls", w)

    def _cross_object(self, ctx, res, n):
        """several Scheduler objects in one process (see c05._cross_object), pulse mode: start times of every call must equal
        the stateless model for the settings the scheduler has at the time of the call"""
        rng = ctx.rng
        P3 = sc.placements(3, sc.FEW_NAMES)
        cases = []
        for _ in range(n):
            def call():
                L = rng.randint(2, 6)
                return {"kind": "pulse", "ins": specs_from([rng.choice(P3) for _ in range(L)]),
                        "durs": duration_stream(rng, L, rng.choice(KINDS)), "den": sc.DEN, "shuf": None, "cycles": False}
            steps = sc.cross_object_steps(rng, call)
            form = rng.choice(["list", "list", "npint"])
            for k, (c, eff, st, r) in enumerate(sc.run_steps(steps, form)):
                cases.append((steps, form, k, c, eff, st, r))
        lines = [sc.model_line(eff["method"], eff["perm"], [fields_of(x) + (d,) for x, d in zip(c["ins"], c["durs"])], None, eff["cons"])
                 for (_, _, _, c, eff, _, _) in cases]
        for (steps, form, k, c, eff, st, r), o in zip(cases, ctx.driver("drv_sched").run(lines)):
            inp = {"steps": [x if x["op"] != "call" else {"op": "call", "id": x["id"],
                                                          "ins": [[g[0], g[1], g[2], d] for g, d in zip(x["call"]["ins"], x["call"]["durs"])]}
                             for x in steps], "call": k, "form": form}
            res.case(inp, nontrivial=True, tags=["cross-object", f"form={form}"])
            w = {"steps": steps, "scope": "covered", "form": form}
            m = sc.parse_model(o)
            if m["status"] != "ok" or st != "ok":
                if m["status"] != st:
                    res.disagree(inp, m["status"], st, "verdict (cross-object history)", w)
            elif m["starts"] != [sc.exact_num(x) for x in r]:
                res.disagree(inp, m["starts"], [sc.exact_num(x) for x in r],
                             f"start times of call {k + 1} (scheduler settings {eff})", w)

    def _flush(self, ctx, res, batch, tag):
        for i in range(0, len(batch), 5000):
            self._run_batch(ctx, res, batch[i:i + 5000], tag)

    def correspondence(self, ctx, res):
        rng = ctx.rng
        self._chain = sc.SchedulerChain(maxlen=8)
        self._pools = {}
        res.notes.append("about a third of the cases are calls on a Scheduler object already used for up to 6 earlier calls of "
                         "the same setting (tag history=k); half of them are followed by a case that re-schedules the same list of "
                         "Instruction objects after in-place edits (tag edited-in-place); the model is stateless")
        settings = [(m, p) for m in ("ASAP", "ALAP") for p in (True, False)]
        # exhaustive: short lists over a small alphabet with two durations ----------------------
        alpha = [("CNOT", [1], [0]), ("CNOT", [2], [0]), ("CNOT", [2], [1]), ("SNOT", [2], []), ("X", [1], []), ("Z", [0], [])]
        two = [sc.DEN, 10 * sc.DEN]
        letters = [(g, d) for g in alpha for d in two]
        maxlen = 4 if ctx.thorough else 3
        batch = []
        for L in range(1, maxlen + 1):
            for seq in itertools.product(letters, repeat=L):
                specs = specs_from([g for g, _ in seq])
                durs = [d for _, d in seq]
                for m, p in settings:
                    batch.append((specs, durs, m, p, False))
        self._flush(ctx, res, batch, "exhaustive")
        res.exhaustive = True
        res.notes.append(f"exhaustive: all instruction lists of length <= {maxlen} over {len(alpha)} placed gates on 3 qubits "
                         f"x durations {{1, 10}}, both methods, both permutation settings")
        # random lists over the whole library on up to 5 qubits ---------------------------------
        P = {N: sc.placements(N) for N in (2, 3, 4, 5)}
        batch = []
        for _ in range(60000 if ctx.thorough else 4000):
            N = rng.choice([2, 3, 4, 5, 5])
            L = rng.randint(1, 14)
            pool = P[N]
            if rng.random() < 0.5:
                names = rng.sample(sc.FEW_NAMES, 3)
                pool = sc.placements(N, [n for n in names if sum(sc.LIBRARY[n][:2]) <= N] or ["X"])
            specs = specs_from([rng.choice(pool) for _ in range(L)])
            durs = duration_stream(rng, L, rng.choice(KINDS))
            m, p = rng.choice(settings)
            batch.append((specs, durs, m, p, rng.random() < 0.4))
        self._flush(ctx, res, batch, "random")
        # priority-inverting shapes (same-name two-target gates overlapping on one qubit + a long tail) ----------
        batch = []
        for seq, durs in priority_shapes():
            for m, p in settings:
                batch.append((specs_from(seq), [d * sc.DEN for d in durs], m, p, False))
        self._flush(ctx, res, batch, "priority-shapes")
        # a gate between two non-commuting gates on one qubit (every one-qubit name, IDLE included) ---------------
        shapes = list(interleaved_shapes(full=ctx.thorough))
        if not ctx.thorough:
            shapes = shapes[:315] + rng.sample(shapes[315:], 300)
        else:                   # all G1; F; G2 triples over the one-qubit names, a sample of the longer shapes
            shapes = shapes[:10125] + rng.sample(shapes[10125:], 30000)
        batch = [(specs_from(seq), [d * sc.DEN for d in durs], m, p, k % 5 == 0)
                 for k, (seq, durs) in enumerate(shapes) for m, p in settings]
        self._flush(ctx, res, batch, "interleaved")
        # the same Instruction object listed several times (only on a tree that copies every entry separately; otherwise the
        # code raises TypeError -- finding, fixes/C11-2.patch -- and nothing is compared)
        if sc.alias_ok():
            wl = list(self._alias_witnesses())
            lines = [sc.model_line(w["method"], True, [fields_of(x) + (d * sc.DEN,) for x, d in zip(w["ins"], w["durs"])]) for w in wl]
            for w, o in zip(wl, ctx.driver("drv_sched").run(lines)):
                st, starts = sc.impl_schedule(sc.aliased_instructions(w["ins"], [d * sc.DEN for d in w["durs"]], sc.DEN),
                                              w["method"], True)
                inp = {"ins": [[g[0], g[1], g[2], d] for g, d in zip(w["ins"], w["durs"])], "method": w["method"], "alias": True}
                res.case(inp, nontrivial=True, tags=["aliased-instructions"])
                m = sc.parse_model(o)
                if st != "ok" or m["status"] != "ok":
                    if st != m["status"]:
                        res.disagree(inp, m["status"], st, "verdict (same Instruction object listed several times)", w)
                elif m["starts"] != [sc.exact_num(x) for x in starts]:
                    res.disagree(inp, m["starts"], [sc.exact_num(x) for x in starts], "start times (aliased instruction list)", w)
        else:
            res.notes.append("lists containing the same Instruction object several times are not compared: this tree copies the "
                             "list as a whole and raises TypeError (finding C11-2)")
        self._cross_object(ctx, res, 1200 if ctx.thorough else 200)
        res.notes.append("cross-object histories (an earlier Scheduler's public attributes edited in place, then a fresh Scheduler; tag "
                         "cross-object); container forms of targets / controls: lists and numpy integers in the correspondence, "
                         "one-element numpy arrays in the oracles")
        # triples on which the rule is not transitive, all orders, priority-flipping duration patterns ---------------------
        batch = []
        for k, w in enumerate(self._nontransitive_witnesses()):
            if ctx.thorough or k % 3 == 0:
                for p in (True, False):
                    batch.append((w["ins"], [d * sc.DEN for d in w["durs"]], w["method"], p, k % 7 == 0))
        self._flush(ctx, res, batch, "nontransitive")
        # constructor arguments: every `method` value x every constraint list on fixed lists, then random ---------------
        batch = []
        for seq, durs in self.CTOR_LISTS:
            for m in sc.METHODS:
                for cons in sc.CONS_LISTS:
                    for p in (True, False):
                        batch.append((specs_from(seq), [d * sc.DEN for d in durs], m, p, False, cons))
        P3 = sc.placements(3, sc.FEW_NAMES)
        for k in range(5000 if ctx.thorough else 800):
            L = rng.randint(2, 8)
            batch.append((specs_from([rng.choice(P3) for _ in range(L)]), duration_stream(rng, L, rng.choice(KINDS)),
                          rng.choice(sc.METHODS), rng.random() < 0.8, rng.random() < 0.3, rng.choice(sc.CONS_LISTS)))
        self._flush(ctx, res, batch, "constructor")
        res.notes.append(f"constructor arguments: {len(sc.METHODS)} method values x {len(sc.CONS_LISTS)} constraint function lists "
                         f"exhaustively on {len(self.CTOR_LISTS)} timed lists, both permutation settings, and at random")
        # degenerate ----------------------------------------------------------------------------
        batch = [([], [], m, p, False) for m, p in settings]
        batch += [(specs_from([("GLOBALPHASE", [], [])]), [sc.DEN], m, p, False) for m, p in settings]
        self._flush(ctx, res, batch, "degenerate")

    # ----------------------------------------------------------------------------------
    def _replay_history(self, ctx, w):
        """several schedule() calls on ONE Scheduler object (pulse output / cycles output / gate mode); the five clauses are
        evaluated on every pulse-mode start-time result (with the cycles of the following call when it asks for them on the
        same instruction list)"""
        _, _, Scheduler, _, _ = sc._mods()
        method, perm, cons = w["method"], w["perm"], w.get("cons")
        sch = sc.new_scheduler(method, perm, cons)
        calls = w["history"]
        store = {}
        mk = gate_obj if w.get("form", "list") == "list" else (lambda x: sc.make_gate(x, w["form"]))
        results = [sc.run_call(sch, c, method, perm, gate_of=mk, store=store) for c in calls]
        n = len(calls)
        for k, (c, (st, r)) in enumerate(zip(calls, results)):
            if c["kind"] != "pulse" or c.get("cycles") or not c["ins"] or all(not sc.used_of(s) for s in c["ins"]):
                continue
            if st != "ok":
                return True, f"call {k + 1} of {n} on one Scheduler object: schedule raised: {st}"
            cycles = None
            if k + 1 < n and calls[k + 1].get("cycles") and calls[k + 1]["kind"] == "pulse" and \
                    calls[k + 1]["ins"] == c["ins"] and calls[k + 1]["durs"] == c["durs"] and results[k + 1][0] == "ok":
                cycles = results[k + 1][1]
            durs = [d / c["den"] for d in c["durs"]]
            bad = timetable_checks(c["ins"], durs, [float(x) for x in r], perm, w.get("scope", "full"),
                                   tol=w.get("tol", 0.0), cycles=cycles, cons=cons)
            if bad:
                return True, (f"call {k + 1} of {n} on one Scheduler object (instructions "
                              f"{[[g[0], g[1], g[2]] for g in c['ins']]}, durations {durs}): " + bad)
        return False, f"{n} calls on one Scheduler object: every returned timetable is valid"

    HIST_POOL = [("CNOT", [1], [0]), ("CNOT", [2], [0]), ("CNOT", [0], [1]), ("SNOT", [0], []), ("X", [1], []),
                 ("RZ", [0], []), ("RX", [0], []), ("Z", [1], []), ("SWAP", [0, 1], [])]

    def _history_witnesses(self, rng, count):
        """random histories: 2-3 instruction lists of length 2-4 over HIST_POOL with durations in {1, 2, 5}, scheduled one
        after the other on ONE Scheduler object, each as a start-time call followed (mostly) by a cycles call; now and then
        a gate-mode call in between"""
        placed = [(g[0], list(g[1]), list(g[2])) for g in self.HIST_POOL]
        for _ in range(count):
            calls = []
            if rng.random() < 0.5:      # ONE list of Instruction objects (or gate list / circuit), edited in place between the calls
                L = rng.randint(2, 4)
                specs = specs_from([rng.choice(self.HIST_POOL) for _ in range(L)])
                if rng.random() < 0.25:
                    c = {"kind": "gate", "N": 3, "gates": specs, "shuf": None, "repeat": 0, "cycles": True,
                         "as_circuit": rng.random() < 0.5, "obj": 1, "edits": []}
                    calls.append(c)
                    ed = sc.random_edits(rng, specs, 3, placed)
                    g2 = sc.edited_specs(specs, ed)
                    if g2:
                        calls.append(dict(c, gates=g2, edits=ed))
                    # followed by a pulse-mode call on another object: indices of the stale pairs are reused
                    d2 = [rng.choice([1, 2, 5]) for _ in g2]
                    if g2:
                        calls.append({"kind": "pulse", "ins": g2, "durs": d2, "den": 1, "shuf": None, "cycles": False})
                else:
                    durs = [rng.choice([1, 2, 5]) for _ in range(L)]
                    c = {"kind": "pulse", "ins": specs, "durs": durs, "den": 1, "shuf": None, "cycles": False, "obj": 1, "edits": []}
                    calls.append(c)
                    for _ in range(rng.randint(1, 2)):
                        ed = sc.random_edits(rng, c["ins"], 3, placed, durs=c["durs"], dur_choices=[1, 2, 5])
                        i2, d2 = sc.edited_specs(c["ins"], ed, c["durs"])
                        if not i2:
                            break
                        c = dict(c, ins=i2, durs=d2, edits=ed)
                        calls.append(c)
                        if rng.random() < 0.5:
                            calls.append(dict(c, cycles=True, edits=[]))
                yield {"history": calls, "method": rng.choice(["ASAP", "ALAP"]), "perm": True, "scope": "covered"}
                continue
            for _ in range(rng.randint(2, 3)):
                L = rng.randint(2, 4)
                specs = specs_from([rng.choice(self.HIST_POOL) for _ in range(L)])
                if rng.random() < 0.2:
                    calls.append({"kind": "gate", "N": 3, "gates": specs, "shuf": None, "repeat": 0, "cycles": rng.random() < 0.5,
                                  "as_circuit": False})
                    continue
                durs = [rng.choice([1, 2, 5]) for _ in range(L)]
                calls.append({"kind": "pulse", "ins": specs, "durs": durs, "den": 1, "shuf": None, "cycles": False})
                if rng.random() < 0.7:
                    calls.append({"kind": "pulse", "ins": specs, "durs": durs, "den": 1, "shuf": None, "cycles": True})
            yield {"history": calls, "method": rng.choice(["ASAP", "ALAP"]), "perm": True, "scope": "covered"}

    def _replay_steps(self, ctx, w):
        """several Scheduler objects in one process, public attributes of earlier ones edited in place; every pulse-mode
        start-time result is judged by the five clauses for the settings its scheduler has at the time of the call"""
        results = sc.run_steps(w["steps"], w.get("form", "list"))
        n = len(results)
        for k, (c, eff, st, r) in enumerate(results):
            if c["kind"] != "pulse" or c.get("cycles") or not c["ins"] or all(not sc.used_of(x) for x in c["ins"]):
                continue
            if st != "ok":
                return True, f"call {k + 1} of {n} (scheduler settings {eff}): schedule raised: {st}"
            durs = [d / c["den"] for d in c["durs"]]
            bad = timetable_checks(c["ins"], durs, [float(x) for x in r], eff["perm"], w.get("scope", "full"),
                                   tol=w.get("tol", 0.0), cycles=None, cons=eff["cons"])
            if bad:
                return True, (f"call {k + 1} of {n}, on a Scheduler with settings {eff} created after / next to other Scheduler objects "
                              f"of the process (instructions {[[g[0], g[1], g[2]] for g in c['ins']]}, durations {durs}): " + bad)
        return False, f"{n} calls on several Scheduler objects: every returned timetable is valid"

    def oracle_replay(self, ctx, w):
        if "steps" in w:
            return self._replay_steps(ctx, w)
        if "history" in w:
            return self._replay_history(ctx, w)
        specs, den, method, perm, cons = w["ins"], w.get("den", 1), w["method"], w["perm"], w.get("cons")
        durs = [d / den for d in w["durs"]]
        if not specs:
            st, r = sc.impl_schedule([], method, perm, cons=cons)
            return (st != "ok" or r != []), f"empty input -> {st} {r}"
        if all(not sc.used_of(s) for s in specs):
            return False, "no instruction uses a qubit (not a timed gate list)"
        _, Instruction, _, _, _ = sc._mods()
        try:
            form = w.get("form", "list")
            if w.get("alias"):
                if w.get("scope") == "covered" and not sc.alias_ok():
                    return False, ("not evaluated: the same Instruction object listed several times raises TypeError on a tree whose "
                                   "InstructionsGraph copies the list as a whole (finding repaired by fixes/C11-2.patch)")
                ins = sc.aliased_instructions(specs, w["durs"], den, (lambda x: sc.make_gate(x, form)))
            else:
                ins = [Instruction(gate_obj(s) if form == "list" else sc.make_gate(s, form), duration=d) for s, d in zip(specs, durs)]
        except Exception as e:
            return True, f"Instruction() raised {type(e).__name__}: {e}"
        log = None
        if w.get("shuf") is not None:
            log = sc.ShuffleLog(replay=w["shuf"])
        elif w.get("shuffle_seed") is not None:
            log = sc.ShuffleLog(random.Random(w["shuffle_seed"]))
        st, starts = sc.impl_schedule(ins, method, perm, log, cons=cons, random_shuffle=log is not None)
        if st != "ok":
            return True, f"schedule raised: {st}"
        log2 = sc.ShuffleLog(replay=log.log) if log is not None else None
        st2, cycles = sc.impl_schedule(ins, method, perm, log2, cons=cons, return_cycles_list=True, random_shuffle=log is not None)
        if st2 != "ok":
            return True, f"schedule(return_cycles_list=True) raised: {st2}"
        bad = timetable_checks(specs, durs, [float(x) for x in starts], perm, w.get("scope", "full"),
                               tol=w.get("tol", 0.0), cycles=cycles, cons=cons)
        if bad:
            return True, bad
        return False, f"starts {list(starts)}: valid timetable" + (
            " (pairs the documented rule declares commuting are not evaluated: known findings)" if w.get("scope") == "covered" else "")

    def _random_witness(self, rng, floats=False):
        N = rng.choice([2, 3, 4, 5])
        P = sc.placements(N)
        if rng.random() < 0.6:
            names = rng.sample(sc.FEW_NAMES + ["SQRTSWAP", "BERKELEY", "RZX"], 4)
            P = sc.placements(N, [n for n in names if sum(sc.LIBRARY[n][:2]) <= N] or ["X"])
        L = rng.randint(2, 12)
        specs = specs_from([rng.choice(P) for _ in range(L)])
        w = {"ins": specs, "method": rng.choice(["ASAP", "ALAP"]), "perm": rng.random() < 0.6, "shuf": None,
             "shuffle_seed": rng.choice([None, rng.randrange(10 ** 6)]), "scope": "covered"}
        if rng.random() < 0.15:
            w["method"] = rng.choice(sc.METHODS_ODD)
        if rng.random() < 0.25:
            w["cons"] = rng.choice(sc.CONS_LISTS)
        if rng.random() < 0.35:
            w["form"] = rng.choice(sc.FORMS[1:] + sc.OBJECT_FORMS)
        if floats:     # arbitrary floats: only the final property, with a tolerance
            w.update(durs=[rng.choice([rng.uniform(0.01, 50.0), 10 ** rng.uniform(-6, 6)]) for _ in range(L)], den=1, tol=1e-6)
        else:
            w.update(durs=duration_stream(rng, L, rng.choice(KINDS)), den=sc.DEN)
        return w

    def _interleaved_witnesses(self, full=False):
        for seq, durs in interleaved_shapes(full=full):
            for m in ("ASAP", "ALAP"):
                yield {"ins": specs_from(seq), "durs": list(durs), "den": 1, "method": m, "perm": True,
                       "shuf": None, "scope": "covered"}

    CTOR_LISTS = [
        ([("X", [0], []), ("SNOT", [0], [])], [2, 3]),
        ([("CNOT", [1], [0]), ("CNOT", [2], [0])], [2, 3]),
        ([("CNOT", [1], [0]), ("SNOT", [2], []), ("CNOT", [2], [0])], [10, 1, 1]),
        ([("RX", [0], []), ("IDLE", [0], []), ("RZ", [0], [])], [5, 1, 1]),
        ([("CZ", [1], [0]), ("CZ", [2], [0]), ("CZ", [2], [1]), ("X", [0], [])], [1, 2, 3, 4]),
        ([("SNOT", [1], []), ("CNOT", [1], [0]), ("CNOT", [2], [0]), ("RZ", [0], []), ("SWAP", [1, 2], [])], [3, 1, 4, 1, 5]),
    ]

    def _cross_object_witnesses(self, rng=None, count=0):
        """histories over several Scheduler objects: the minimal ones first (use / edit scheduler 0 in place, then a fresh
        default scheduler), then random ones"""
        def call(seq, durs):
            return {"kind": "pulse", "ins": specs_from(seq), "durs": list(durs), "den": 1, "shuf": None, "cycles": False}
        if rng is None:
            for seq, durs in self.CTOR_LISTS:
                # attribute edits on ONE object: constructed without permutation / with the other method, then switched
                for m in ("ASAP", "ALAP"):
                    for what in ("perm:1", "method:" + ("ALAP" if m == "ASAP" else "ASAP"), ["assign", ["q"]], ["assign", None]):
                        yield {"steps": [{"op": "new", "id": 0, "method": m, "perm": what != "perm:1", "cons": None},
                                         {"op": "mutate", "id": 0, "what": what},
                                         {"op": "call", "id": 0, "call": call(seq, durs)}], "scope": "covered"}
                for what in ("clear", "pop", "append_a", "method:ALAP", "perm:0"):
                    for m in ("ASAP", "ALAP"):
                        yield {"steps": [{"op": "new", "id": 0, "method": m, "perm": True, "cons": None},
                                         {"op": "call", "id": 0, "call": call(seq, durs)},
                                         {"op": "mutate", "id": 0, "what": what},
                                         {"op": "new", "id": 1, "method": m, "perm": True, "cons": None},
                                         {"op": "call", "id": 1, "call": call(seq, durs)},
                                         {"op": "call", "id": 0, "call": call(seq, durs)}], "scope": "covered"}
        else:
            for _ in range(count):
                def mk():
                    L = rng.randint(2, 4)
                    return call([rng.choice(self.HIST_POOL) for _ in range(L)], [rng.choice([1, 2, 5]) for _ in range(L)])
                yield {"steps": sc.cross_object_steps(rng, mk), "scope": "covered",
                       "form": rng.choice(["list", "list", "npint", "array1"])}

    def _form_witnesses(self):
        """container forms of targets / controls (numpy integers, one-element numpy arrays) on small timed lists"""
        lists = self.CTOR_LISTS + [([("CNOT", [1], [0]), ("X", [0], [])], [3, 1]), ([("X", [0], []), ("CNOT", [1], [0])], [1, 3]),
                                   ([("CNOT", [1], [0]), ("SNOT", [0], []), ("CNOT", [2], [0])], [2, 1, 2]),
                                   ([("CZ", [1], [0]), ("RX", [0], []), ("RZ", [1], [])], [2, 3, 1])]
        lists += [([("CRX", [1], [0]), ("CRY", [1], [0])], [2, 1]), ([("CX", [2], [0]), ("CY", [2], [1])], [1, 2]),
                  ([("CT", [0], [1]), ("CY", [0], [2])], [2, 2]), ([("CS", [1], [0]), ("CRZ", [1], [0]), ("CRX", [1], [0])], [1, 1, 2]),
                  ([("SWAP", [1], [0]), ("SWAP", [2], [0])], [1, 2])]
        for seq, durs in lists:
            for form in sc.FORMS[1:] + sc.OBJECT_FORMS:
                for m in ("ASAP", "ALAP"):
                    yield {"ins": specs_from(seq), "durs": list(durs), "den": 1, "method": m, "perm": True, "shuf": None,
                           "scope": "covered", "form": form}

    ALIAS_LISTS = [([0, 0], [2]), ([0, 0, 0], [2]), ([0, 1, 0], [2, 1]), ([1, 0, 0, 1], [2, 1]), ([0, 1, 1, 0, 2], [1, 3, 2]),
                   ([2, 2, 0, 2], [1, 1, 2])]

    def _alias_witnesses(self):
        """lists in which the SAME Instruction object occurs several times ([inst] * k, [a, b, a], ...)"""
        pool = [("X", [0], []), ("CNOT", [1], [0]), ("RZ", [1], []), ("SNOT", [0], []), ("CZ", [2], [0])]
        for idx, durs in self.ALIAS_LISTS:
            for shift in range(len(pool)):
                seq = [pool[(i + shift) % len(pool)] for i in idx]
                base = specs_from([pool[(i + shift) % len(pool)] for i in range(len(durs))])
                specs = [base[i] for i in idx]           # equal entries get equal parameters: the same object
                for m in ("ASAP", "ALAP"):
                    yield {"ins": specs, "durs": [durs[i] for i in idx], "den": 1, "method": m, "perm": True, "shuf": None,
                           "scope": "covered", "alias": True}

    def _constructor_witnesses(self):
        """every kind of constructor argument: all `method` values x all constraint lists on a few small timed lists"""
        for seq, durs in self.CTOR_LISTS:
            for m in sc.METHODS:
                for cons in sc.CONS_LISTS:
                    if m in ("ASAP", "ALAP") and cons is None:
                        continue
                    yield {"ins": specs_from(seq), "durs": list(durs), "den": 1, "method": m, "perm": True, "shuf": None,
                           "scope": "covered", "cons": cons}

    def _shape_witnesses(self):
        for seq, durs in priority_shapes():
            for m in ("ASAP", "ALAP"):
                for p in (True, False):
                    yield {"ins": specs_from(seq), "durs": list(durs), "den": 1, "method": m, "perm": p,
                           "shuf": None, "scope": "covered"}

    def _nontransitive_witnesses(self):
        """all orders of the triples on which the documented rule is not transitive, with duration patterns that give either
        single-qubit gate the higher priority (ASAP: the later one longer, ALAP: the earlier one longer)"""
        for seq in sc.nontransitive_shapes():
            n = len(seq)
            for d3 in sc.DUR_PATTERNS3:
                durs = list(d3) + [1] * (n - 3) if seq[0][0] != "SNOT" or n == 3 else [1] + list(d3)
                for m in ("ASAP", "ALAP"):
                    yield {"ins": specs_from(seq), "durs": durs[:n], "den": 1, "method": m, "perm": True, "shuf": None,
                           "scope": "covered"}

    def _systematic(self):
        yield from self._alias_witnesses()
        yield from self._form_witnesses()
        yield from self._cross_object_witnesses()
        yield from self._nontransitive_witnesses()
        yield from self._constructor_witnesses()
        yield from self._interleaved_witnesses()
        yield from self._shape_witnesses()
        alpha = [("CNOT", [1], [0]), ("CNOT", [2], [0]), ("CNOT", [2], [1]), ("SNOT", [2], []), ("X", [1], []),
                 ("Z", [0], []), ("SWAP", [0, 1], []), ("CZ", [1], [0])]
        for L in (1, 2, 3):
            for seq in itertools.product(alpha, repeat=L):
                for durs in itertools.product([1, 10], repeat=L):
                    for m in ("ASAP", "ALAP"):
                        for p in (True, False):
                            yield {"ins": specs_from(seq), "durs": list(durs), "den": 1, "method": m, "perm": p,
                                   "shuf": None, "scope": "covered"}

    def oracle_search(self, ctx, budget_s):
        t0 = time.time()
        for w in self._systematic():
            if time.time() - t0 > budget_s * 0.6:
                break
            f, d = self.oracle_replay(ctx, w)
            if f:
                yield w, d
        while time.time() - t0 < budget_s:
            if ctx.rng.random() < 0.3:
                w = next(self._history_witnesses(ctx.rng, 1))
            else:
                w = self._random_witness(ctx.rng, floats=ctx.rng.random() < 0.3)
            f, d = self.oracle_replay(ctx, w)
            if f:
                yield w, d

    def oracle_always(self, ctx):
        # scope "covered": commutation decided by the matrices; only the two recorded known-finding classes are skipped
        # (see timetable_checks); the other clauses are evaluated for every list.
        for w in itertools.chain(self._alias_witnesses(), self._form_witnesses(), self._cross_object_witnesses(),
                                 self._cross_object_witnesses(ctx.rng, 200)):
            f, d = self.oracle_replay(ctx, w)
            if f:
                yield w, d
        nt = list(self._nontransitive_witnesses())
        for w in nt[:len(sc.DUR_PATTERNS3) * 2 * 48] + ctx.rng.sample(nt, 300):
            f, d = self.oracle_replay(ctx, w)
            if f:
                yield w, d
        ctor = list(self._constructor_witnesses())
        for w in ctor[:len(sc.METHODS) * len(sc.CONS_LISTS)] + ctx.rng.sample(ctor, 400):
            f, d = self.oracle_replay(ctx, w)
            if f:
                yield w, d
        shapes = list(self._shape_witnesses())
        for w in ctx.rng.sample(shapes, 80):
            f, d = self.oracle_replay(ctx, w)
            if f:
                yield w, d
        inter = list(self._interleaved_witnesses())
        for w in inter[:210] + ctx.rng.sample(inter[210:], 200):
            f, d = self.oracle_replay(ctx, w)
            if f:
                yield w, d
        for k in range(300):
            w = self._random_witness(ctx.rng, floats=(k % 3 == 0))
            f, d = self.oracle_replay(ctx, w)
            if f:
                yield w, d
        # histories: one Scheduler object used for several instruction lists
        for w in self._history_witnesses(ctx.rng, 400):
            f, d = self.oracle_replay(ctx, w)
            if f:
                yield w, d


CHECK = C11()
