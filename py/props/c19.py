"""C19 — the variational-algorithm gradient is the derivative of the cost.

Correspondence of lean/QipVerif/Model/Vqa.lean with qutip_qip.vqa.VQA (index bookkeeping compared
exactly: block series, parameter slices, jacobian entries, prefix/suffix products), plus the direct
numerical statement of the property (central finite differences of `evaluate_parameters`).

The matrix semantics of the Lean theorems (Lemmas/VqaSem.lean: SBlock.unitary, SBlock.dUnitary, props,
costOf, jacValue) is re-evaluated here with numpy from the raw block matrices and the model's indices, and
compared (1e-9) with what the implementation computes: every propagator, every matrix returned by
get_unitary_derivative, the cost, and every jacobian entry."""
import itertools, time
import numpy as np

from vlib.core import PropertyCheck

KINDS = "hunpf"
SENTINEL = 12345.0
NATIVE_1Q = ["SNOT", "X", "Y", "Z", "S", "T"]
PAULI = {"I": np.eye(2), "X": np.array([[0, 1], [1, 0]]), "Y": np.array([[0, -1j], [1j, 0]]),
         "Z": np.array([[1, 0], [0, -1]])}


def _impl():
    import qutip
    from qutip_qip import vqa
    return qutip, vqa


def _herm(rng, d):
    a = rng.normal(size=(d, d)) + 1j * rng.normal(size=(d, d))
    return (a + a.conj().T) / 2


def _pauli_string(s):
    m = np.array([[1.0 + 0j]])
    for c in s:
        m = np.kron(m, PAULI[c])
    return m


def make_block(w, j, b, name=None):
    """block number j of the witness (matrices are a function of (seed, j) only); `name` / b["name"]: user-chosen name"""
    qutip, vqa = _impl()
    nq = w["nq"]
    d = 2 ** nq
    dims = [[2] * nq, [2] * nq]
    natives = [(g, [q]) for q in range(nq) for g in NATIVE_1Q]
    rng = np.random.default_rng([int(w.get("seed", 0)), j, 19])
    k, ini = b["kind"], bool(b["initial"])
    name = name if name is not None else b.get("name")
    if k == "h":
        return vqa.VQABlock(qutip.Qobj(_herm(rng, d), dims=dims), initial=ini, name=name)
    if k == "u":
        h = _herm(rng, d)
        ev, evec = np.linalg.eigh(h)
        u = evec @ np.diag(np.exp(-1j * ev)) @ evec.conj().T
        return vqa.VQABlock(qutip.Qobj(u, dims=dims), is_unitary=True, initial=ini, name=name)
    if k == "n":
        g, t = natives[j % len(natives)]
        return vqa.VQABlock(g, targets=t, initial=ini, name=name)
    if k == "p":
        if b.get("paulis") is not None:
            terms = [qutip.Qobj(_pauli_string(s), dims=dims) for s in b["paulis"]]
            const = qutip.Qobj(_pauli_string(b["const"]), dims=dims) if b.get("const") else None
        else:
            terms = [qutip.Qobj(_herm(rng, d), dims=dims) for _ in range(b["nterms"])]
            const = qutip.Qobj(_herm(rng, d), dims=dims) if (j % 2 == 0 or not terms) else None
        return vqa.VQABlock(vqa.ParameterizedHamiltonian(terms, const), initial=ini, name=name)
    if k == "f":
        H = qutip.Qobj(_herm(rng, d), dims=dims)
        return vqa.VQABlock((lambda H: (lambda t: (-1j * t * H).expm()))(H), initial=ini, name=name)
    raise ValueError("unknown block kind " + k)


def make_observable(w):
    qutip, _ = _impl()
    nq = w["nq"]
    rng = np.random.default_rng([int(w.get("seed", 0)) + int(w.get("obs_shift", 0)), 1000, 19])
    return qutip.Qobj(_herm(rng, 2 ** nq), dims=[[2] * nq, [2] * nq])


CM_NAME = {"o": "OBSERVABLE", "s": "STATE", "b": "BITSTRING"}


def build_vqa(w):
    """Real VQA object from a witness {nq, layers, blocks:[{kind,nterms,initial[,paulis,const]}], seed[,cm,obs,func,obs_shift]}."""
    qutip, vqa = _impl()
    v = vqa.VQA(w["nq"], w["layers"], cost_method=CM_NAME[w.get("cm", "o")])
    for j, b in enumerate(w["blocks"]):
        v.add_block(make_block(w, j, b))
    if w.get("obs", 1):
        v.cost_observable = make_observable(w)
    if w.get("func", 0):
        v.cost_func = lambda x: SENTINEL
    return v


def nparams(b):
    return {"h": 1, "u": 0, "n": 0, "f": 1}.get(b["kind"], b["nterms"])


def nfree_of(w):
    ini = sum(nparams(b) for b in w["blocks"] if b["initial"])
    lay = sum(nparams(b) for b in w["blocks"] if not b["initial"])
    return ini + lay * w["layers"]


def enc_blocks(blocks):
    return ",".join(f"{b['kind']}:{b['nterms'] if b['kind'] == 'p' else 0}:{1 if b['initial'] else 0}" for b in blocks)


def classify_exc(e):
    msg = str(e)
    if isinstance(e, ValueError):
        if "Expected" in msg and "angles" in msg:
            return "angles"
        if "No angles were given" in msg:
            return "noangles"
        if "please specify the attribute" in msg:
            return "nocostfunc"
        return "other:ValueError:" + msg[:60]
    if isinstance(e, TypeError) and "unsupported operand" in msg and "function" in msg:
        return "funcderiv"
    if isinstance(e, NotImplementedError) and "observable" in msg:
        return "noobs"
    return "other:" + type(e).__name__ + ":" + msg[:60]


class _Logged(list):
    def __init__(self, it, name, log):
        super().__init__(it)
        self._name, self._log = name, log

    def __getitem__(self, i):
        self._log.append(("get", self._name, i))
        return super().__getitem__(i)


def instrumented_jac(v, angles, idx):
    """Run the implementation's compute_jac on a real VQA and record, through instance-level wrappers
    around its own methods, which block / slice / term / prefix / suffix every entry used."""
    log = []
    orig_gup = v.get_unitary_products
    orig_cd = v.cost_derivative

    def gup(props):
        f, b = orig_gup(props)
        log.append(("nprops", len(props), f, b))
        return _Logged(f, "f", log), _Logged(b, "b", log)

    def cd(U, dU):
        val = orig_cd(U, dU)
        log.append(("cd", val, U))
        return val

    v.get_unitary_products = gup
    v.cost_derivative = cd
    for j, blk in enumerate(v.blocks):
        def wrap(*a, _j=j, _o=blk.get_unitary_derivative, **kw):
            term = a[1] if len(a) > 1 else kw.get("term_index", 0)
            log.append(("deriv", _j, [float(x) for x in a[0]], term))
            out = _o(*a, **kw)
            log.append(("dmat", _j, out))
            return out
        blk.get_unitary_derivative = wrap
    try:
        try:
            jac = v.compute_jac(angles, idx) if idx is not None else v.compute_jac(angles)
            status = "ok"
        except Exception as e:  # canonicalised
            jac, status = None, classify_exc(e)
    finally:
        del v.get_unitary_products, v.cost_derivative
        for blk in v.blocks:
            del blk.get_unitary_derivative
    return status, jac, log


def entries_from_log(log, angles):
    """-> (list of 'k:blk:start:n:term', problems)"""
    pos = {}
    for i, a in enumerate(angles):
        pos.setdefault(float(a), i)
    out, problems, cur, nprops, full = [], [], {}, None, None
    for ev in log:
        if ev[0] == "nprops":
            nprops = ev[1]
            full = ev[2][-1]
        elif ev[0] == "deriv":
            cur = {"blk": ev[1], "slice": ev[2], "term": ev[3]}
        elif ev[0] == "get":
            cur[ev[1]] = ev[2]
        elif ev[0] == "cd":
            sl = cur.get("slice", [])
            start = pos.get(sl[0]) if sl else None
            if start is None or [float(x) for x in angles[start:start + len(sl)]] != sl:
                problems.append("derivative received a non-contiguous or unknown slice " + str(sl))
                start = -1
            k = cur.get("f")
            if cur.get("b") != (nprops - 1 - k if k is not None and nprops is not None else None):
                problems.append(f"suffix index {cur.get('b')} used with prefix index {k} of {nprops} propagators")
            if full is not None and not np.allclose(ev[2].full(), full.full(), atol=1e-10):
                problems.append("U passed to cost_derivative is not the full product")
            out.append(f"{k}:{cur.get('blk')}:{start}:{len(sl)}:{cur.get('term')}")
            cur = {}
    return out, problems



# ------------------------------------------------------------------------------------------------
# independent numpy evaluation of the Lean semantics (Lemmas/VqaSem.lean)
GATE_1Q = {"SNOT": np.array([[1, 1], [1, -1]]) / np.sqrt(2), "X": PAULI["X"], "Y": PAULI["Y"], "Z": PAULI["Z"],
           "S": np.diag([1, 1j]), "T": np.diag([1, np.exp(1j * np.pi / 4)])}
_GL = np.polynomial.legendre.leggauss(12)


def expm_np(a):
    from scipy.linalg import expm
    return expm(np.asarray(a, dtype=complex))


def exp_frechet_block(A, E):
    """derivative of exp at A in direction E, from exp [[A,E],[0,A]] = [[e^A, L(A,E)],[0,e^A]]"""
    d = A.shape[0]
    z = np.zeros((d, d), dtype=complex)
    return expm_np(np.block([[A, E], [z, A]]))[:d, d:]


def exp_frechet_duhamel(A, E):
    """the Lean definition expFrechet A E = int_0^1 e^{sA} E e^{(1-s)A} ds (Gauss-Legendre, eigen-free)"""
    x, wts = _GL
    panels = int(np.ceil(np.linalg.norm(A, 2) / 6.0)) + 1
    out = np.zeros_like(A, dtype=complex)
    for p in range(panels):
        lo, hi = p / panels, (p + 1) / panels
        for xi, wi in zip(x, wts):
            sft = lo + 0.5 * (xi + 1.0) * (hi - lo)
            out = out + 0.5 * (hi - lo) * wi * (expm_np(sft * A) @ E @ expm_np((1.0 - sft) * A))
    return out


class SemBlock:
    """SBlock of Lemmas/VqaSem.lean built from the raw matrices of a real VQABlock"""

    def __init__(self, blk, nq):
        from qutip import Qobj
        self.kind = None
        op = blk.operator
        if blk.is_native_gate:
            self.kind = "native"
            m = np.array([[1.0 + 0j]])
            for q in range(nq):
                m = np.kron(m, GATE_1Q[op] if [q] == list(blk.targets) else np.eye(2))
            self.U = m
        elif isinstance(op, Qobj) and blk.is_unitary:
            self.kind, self.U = "fixed", op.full()
        elif isinstance(op, Qobj):
            self.kind, self.H = "ham", op.full()
        elif hasattr(op, "p_terms"):
            self.kind = "pham"
            self.terms = [t.full() for t in op.p_terms]
            d = 2 ** nq
            self.c = op.c_term.full() if op.c_term is not None else np.zeros((d, d), dtype=complex)
        else:
            self.kind = "func"

    def _A(self, args):
        tot = self.c.astype(complex)
        for a, h in zip(args, self.terms):
            tot = tot + a * h
        return -1j * tot

    def unitary(self, args):
        if self.kind in ("fixed", "native"):
            return self.U
        if self.kind == "ham":
            return expm_np((-1j * args[0]) * self.H)
        if self.kind == "pham":
            return expm_np(self._A(args))
        raise ValueError("no semantics for a function block")

    def d_unitary(self, args, term, duhamel=False):
        if self.kind == "ham":
            return self.unitary(args) @ (-1j * self.H)
        if self.kind == "pham":
            f = exp_frechet_duhamel if duhamel else exp_frechet_block
            return f(self._A(args), -1j * self.terms[term])
        raise ValueError("no derivative")


def _prod(ms, d):
    u = np.eye(d, dtype=complex)
    for m in ms:
        u = m @ u
    return u


def close(a, b, tol=1e-9):
    a, b = np.asarray(a), np.asarray(b)
    return a.shape == b.shape and bool(np.all(np.abs(a - b) <= tol * (1.0 + np.abs(b))))


# ------------------------------------------------------------------------------------------------
# special parameter vectors: points where the summed Hamiltonian of a multi-parameter block is degenerate
SPECIAL_VALUES = [0.0, np.pi / 2, np.pi, -np.pi, 2 * np.pi, 0.7, 1e-12, -1e-12]
PAULI_FAMILIES = {1: [["X", "Z"], ["X", "Y", "Z"], ["Z", "Z"]],
                  2: [["ZI", "IX"], ["XX", "ZI"], ["ZZ", "XI", "IX"], ["XX", "YY"]],
                  3: [["ZII", "IXI", "IIY"], ["XXI", "IZZ"]]}


def special_angles(rng, nfree, count):
    """vectors with vanishing / equal / pi-multiple / 1e-12-separated coordinates (all zeros first)"""
    if nfree == 0:
        return
    out = [[0.0] * nfree, [0.7] * nfree, [np.pi] * nfree,
           [(1e-12 if j % 2 else 0.0) for j in range(nfree)],
           [0.7 + (1e-12 if j % 2 else 0.0) for j in range(nfree)]]
    for j in range(min(nfree, 3)):                      # one coordinate switched on / off
        out.append([0.9 if i == j else 0.0 for i in range(nfree)])
        out.append([0.0 if i == j else 0.4 + 0.3 * i for i in range(nfree)])
    seen, k = set(), 0
    for a in out:
        if tuple(a) not in seen and k < count:
            seen.add(tuple(a))
            k += 1
            yield a
    tries = 0
    while k < count and tries < 20 * count:
        tries += 1
        a = [rng.choice(SPECIAL_VALUES) if rng.random() < 0.7 else round(rng.uniform(-6.0, 6.0), 3) for _ in range(nfree)]
        if tuple(a) not in seen:
            seen.add(tuple(a))
            k += 1
            yield a


# term lists where consecutive terms commute but a non-consecutive pair does not (and all other orderings)
COMM_SETS = {1: [["X", "I", "Z"], ["X", "Y", "Z"], ["Z", "I", "Y"], ["X", "I", "Z", "I"]],
             2: [["XI", "IZ", "ZI"], ["XI", "II", "ZI"], ["XX", "ZZ", "ZI"], ["YI", "IY", "ZZ"], ["XI", "IZ", "ZI", "IX"],
                 ["ZI", "II", "IZ", "XI"]]}


def commuting_witnesses():
    """all orderings of small Pauli-string sets (identity terms included) as 3-4 parameterised terms, and the same sets
    with the last element of the ordering as the CONSTANT term"""
    n = 0
    for nq, sets in COMM_SETS.items():
        for base in sets:
            for perm in sorted(set(itertools.permutations(base))):
                for with_const in (False, True):
                    n += 1
                    terms = list(perm[:-1]) if with_const else list(perm)
                    blk = {"kind": "p", "nterms": len(terms), "initial": False, "paulis": terms}
                    if with_const:
                        blk["const"] = perm[-1]
                    blocks = [blk]
                    if n % 3 == 1:
                        blocks = [{"kind": "h", "nterms": 0, "initial": True}] + blocks
                    yield {"nq": nq, "layers": 1 + n % 2, "blocks": blocks, "seed": 9000 + n}


def pauli_witness(rng, n):
    """structure with a multi-parameter Pauli-string ParameterizedHamiltonian (degenerate at many special points)"""
    nq = 1 + n % 3
    fam = PAULI_FAMILIES[nq][(n // 3) % len(PAULI_FAMILIES[nq])]
    blocks = []
    if n % 4 == 1:
        blocks.append({"kind": "h", "nterms": 0, "initial": True})
    if n % 4 == 2:
        blocks.append({"kind": "u", "nterms": 0, "initial": False})
    blocks.append({"kind": "p", "nterms": len(fam), "initial": False, "paulis": list(fam)})
    if n % 5 == 3:
        fam2 = PAULI_FAMILIES[nq][(n // 3 + 1) % len(PAULI_FAMILIES[nq])]
        blocks.append({"kind": "p", "nterms": len(fam2), "initial": False, "paulis": list(fam2)})
    return {"nq": nq, "layers": 1 + (n // 2) % 2, "blocks": blocks, "seed": 7000 + n}


# ------------------------------------------------------------------------------------------------
# histories: several calls on ONE VQA object with ONE parameter container that is updated in place between calls
def make_history(rng, nfree, nsteps=None, w=None):
    """-> {"container": "list"|"array", "start": [...], "steps": [{"fresh": bool, "set": [[i, v], ..], "op": "jac"|"eval"|"state",
    "idx": None|[..], "cfg": [[attr, value], ..], "pad": [..]}]}; "set" assigns coordinates IN PLACE before the call, "fresh"
    first replaces the container by a new one with equal values, "cfg" assigns PUBLIC attributes of the VQA object before the
    call (num_layers, cost_method, cost_observable, add_block) and "pad" supplies the values of new coordinates when the number
    of free parameters grew.  With `w` (the witness) given, the pattern may be "config"."""
    start = [round(rng.uniform(-3.0, 3.0), 4) for _ in range(nfree)]
    steps = []
    nsteps = nsteps or rng.randint(3, 6)
    pattern = rng.choice(["descent", "sweep", "eval-then-jac", "mixed"] + (["config", "config", "layers", "refused", "refused"] if w is not None else []))
    if pattern in ("config", "layers"):
        return _make_config_history(rng, w, start, pattern)
    if pattern == "refused":
        return _make_refused_history(rng, w, start)
    for t in range(nsteps):
        st = {"fresh": False, "set": [], "op": "jac", "idx": None}
        if t > 0 and nfree:
            if pattern == "descent":
                st["set"] = [[i, round(rng.uniform(-3.0, 3.0), 4)] for i in range(nfree)]
            elif pattern == "sweep":
                i = (t - 1) % nfree
                st["set"] = [[i, round(rng.uniform(-3.0, 3.0), 4)]]
                st["idx"] = [i]
            elif pattern == "eval-then-jac":
                st["set"] = [[rng.randrange(nfree), round(rng.uniform(-3.0, 3.0), 4)] for _ in range(rng.randint(1, 2))]
            else:
                r = rng.random()
                if r < 0.2:
                    st["fresh"] = True
                elif r < 0.85:
                    st["set"] = [[rng.randrange(nfree), round(rng.uniform(-3.0, 3.0), 4)] for _ in range(rng.randint(1, nfree))]
                if rng.random() < 0.4:
                    st["idx"] = sorted(rng.sample(range(nfree), rng.randint(1, nfree)))
        if pattern == "eval-then-jac":
            st["op"] = ["eval", "jac", "state", "jac", "eval", "jac"][t % 6]
        elif pattern == "mixed":
            st["op"] = rng.choice(["jac", "jac", "eval", "state"])
        steps.append(st)
    if not any(st["op"] == "jac" for st in steps[1:]):
        steps[-1]["op"] = "jac"
    return {"container": rng.choice(["list", "array"]), "start": start, "steps": steps}


def apply_cfg(w, cfg):
    """the witness after the attribute assignments `cfg` (pure; used for the fresh reference object)"""
    w = dict(w, blocks=[dict(b) for b in w["blocks"]])
    for attr, val in cfg:
        if attr == "num_layers":
            w["layers"] = int(val)
        elif attr == "cost_method":
            w["cm"] = val
        elif attr == "cost_observable":
            w["obs_shift"] = int(val)
            w["obs"] = 1
        elif attr == "add_block":
            w["blocks"].append(dict(val))
    return w


def apply_cfg_inplace(v, w_after, cfg):
    """the same assignments on the live object, through its public attributes / add_block"""
    for attr, val in cfg:
        if attr == "num_layers":
            v.num_layers = int(val)
        elif attr == "cost_method":
            v.cost_method = CM_NAME[val]
        elif attr == "cost_observable":
            v.cost_observable = make_observable(w_after)
        elif attr == "add_block":
            v.add_block(make_block(w_after, len(v.blocks), val))


def _make_config_history(rng, w, start, pattern):
    steps = [{"fresh": False, "set": [], "op": rng.choice(["jac", "jac", "eval"]), "idx": None, "cfg": [], "pad": []}]
    cur = dict(w)
    for t in range(1, rng.randint(3, 5)):
        cfg = []
        if pattern == "layers":
            newL = cur["layers"] + 1 if (t % 2 == 1 and cur["layers"] < 3) else max(1, cur["layers"] - 1)
            cfg.append(["num_layers", newL])
        else:
            r = rng.random()
            if r < 0.4:
                cfg.append(["num_layers", rng.choice([x for x in (1, 2, 3) if x != cur["layers"]])])
            elif r < 0.55:
                cfg.append(["cost_method", rng.choice("osb")])
            elif r < 0.75:
                cfg.append(["cost_observable", rng.randint(1, 50)])
            elif len(cur["blocks"]) < 4:
                k = rng.choice(["h", "u", "n", "p"])
                cfg.append(["add_block", {"kind": k, "nterms": rng.randint(1, 2) if k == "p" else 0, "initial": rng.random() < 0.25}])
            else:
                cfg.append(["num_layers", rng.choice([x for x in (1, 2, 3) if x != cur["layers"]])])
        cur = apply_cfg(cur, cfg)
        nf = nfree_of(cur)
        st = {"fresh": False, "set": [], "op": "jac" if rng.random() < 0.75 else rng.choice(["eval", "state"]), "idx": None,
              "cfg": cfg, "pad": [round(rng.uniform(-3.0, 3.0), 4) for _ in range(12)]}
        if nf and st["op"] == "jac":
            r = rng.random()
            if r < 0.35:
                st["idx"] = [nf - 1]                      # a parameter of the LAST layer / block
            elif r < 0.55:
                st["idx"] = sorted(rng.sample(range(nf), rng.randint(1, nf)))
        if nf and rng.random() < 0.4:
            st["set"] = [[rng.randrange(nf), round(rng.uniform(-3.0, 3.0), 4)]]
        steps.append(st)
    return {"container": rng.choice(["list", "array"]), "start": start, "steps": steps}


# refused operations: calls that raise (or are no-ops for the configuration); afterwards the object must behave exactly as before
REFUSED_OPS = ["add_block_dup", "add_block_auto", "add_none", "bad_cost_method", "short_vector", "bad_indices", "bad_initial",
               "derivative_of_fixed"]


def _rejected_spec(b):
    """a block with the same number of parameters as `b` but another unitary"""
    r = {k: v for k, v in b.items() if k != "name"}
    if r.get("paulis"):
        sub = {"X": "Y", "Y": "Z", "Z": "X", "I": "I"}
        r["paulis"] = ["".join(sub[c] for c in s) for s in reversed(r["paulis"])]
    return r


def _make_refused_history(rng, w, start):
    nb = len(w["blocks"])
    auto = [j for j, b in enumerate(w["blocks"]) if b.get("name") == "U" + str(nb)]
    steps = [{"fresh": False, "set": [], "op": rng.choice(["jac", "eval"]), "idx": None, "cfg": [], "pad": [], "refused": []}]
    nf = len(start)
    for t in range(1, rng.randint(3, 5)):
        ops = []
        for _ in range(rng.randint(1, 2)):
            kind = rng.choice(["add_block_dup", "add_block_dup", "add_block_auto" if auto else "add_block_dup", "add_none",
                               "bad_cost_method", "short_vector", "bad_indices", "bad_initial", "derivative_of_fixed"])
            j = auto[0] if kind == "add_block_auto" else rng.randrange(nb)
            ops.append({"op": kind, "like": j, "salt": 50 + 7 * t + j})
        st = {"fresh": False, "set": [], "op": "jac" if rng.random() < 0.7 else rng.choice(["eval", "state"]), "idx": None,
              "cfg": [], "pad": [], "refused": ops}
        if nf and rng.random() < 0.3:
            st["set"] = [[rng.randrange(nf), round(rng.uniform(-3.0, 3.0), 4)]]
        if nf and st["op"] == "jac" and rng.random() < 0.3:
            st["idx"] = sorted(rng.sample(range(nf), rng.randint(1, nf)))
        steps.append(st)
    return {"container": rng.choice(["list", "array"]), "start": start, "steps": steps}


def run_refused(v, cw, op, x):
    """execute one refused operation on the live object; -> (observed, expected) verdict strings"""
    import contextlib, io
    kind, j = op["op"], op.get("like", 0)
    nf = nfree_of(cw)
    try:
        if kind in ("add_block_dup", "add_block_auto"):
            b = cw["blocks"][j]
            expected = "ValueError:Duplicate Block name"
            name = None if kind == "add_block_auto" else v.blocks[j].name
            v.add_block(make_block(cw, op["salt"], _rejected_spec(b), name=name) if name is not None
                        else make_block(cw, op["salt"], _rejected_spec(b)))
        elif kind == "add_none":
            expected = "AttributeError:"
            v.add_block(None)
        elif kind == "bad_cost_method":
            expected = "ValueError:Unrecognised cost method"
            old = v.cost_method
            v.cost_method = "EXPECTATION"
            try:
                v.evaluate_parameters(list(x))
            finally:
                v.cost_method = old
        elif kind == "short_vector":
            expected = "ValueError:Expected" if nf else "ok"
            v.compute_jac(list(x)[:-1])
        elif kind == "bad_indices":
            expected = "ok:empty"
            out = v.compute_jac(list(x), [nf + 3, -1, nf])
            return ("ok:empty" if len(out) == 0 else f"ok:{len(out)} entries"), expected
        elif kind == "bad_initial":
            expected = "ValueError:"
            with contextlib.redirect_stdout(io.StringIO()):
                if op["salt"] % 2:
                    v.optimize_parameters(initial="zeros", use_jac=True)
                else:
                    v.optimize_parameters(initial=[0.1] * (nf + 1), use_jac=True, layer_by_layer=True)
        elif kind == "derivative_of_fixed":
            fixed = [b for b in v.blocks if b.is_unitary or b.is_native_gate]
            if not fixed:
                return "skipped", "skipped"
            expected = "ValueError:Can only take derivative"
            fixed[0].get_unitary_derivative([0.3])
        else:
            return "unknown", "known"
        return "ok", expected
    except Exception as e:
        return f"{type(e).__name__}:{str(e)}", expected


def refused_matches(observed, expected):
    return observed.startswith(expected)


def run_history(w, hist, v=None):
    """execute the history on ONE object; yields (step index, step, copy of the current vector, result | exception,
    current configuration as a witness)"""
    v = v if v is not None else build_vqa(w)
    cur_w = w
    x = list(hist["start"]) if hist["container"] == "list" else np.array(hist["start"], dtype=float)
    for t, st in enumerate(hist["steps"]):
        if st.get("cfg"):
            cur_w = apply_cfg(cur_w, st["cfg"])
            apply_cfg_inplace(v, cur_w, st["cfg"])
            nf = nfree_of(cur_w)
            if nf != len(x):                              # the number of free parameters changed
                if hist["container"] == "list":
                    if nf < len(x):
                        del x[nf:]                        # same list object
                    else:
                        x.extend(st.get("pad", [])[:nf - len(x)] + [0.5] * max(0, nf - len(x) - len(st.get("pad", []))))
                else:
                    extra = (list(st.get("pad", [])) + [0.5] * nf)[:max(0, nf - len(x))]
                    x = np.array(list(x[:nf]) + extra, dtype=float)
        if st.get("fresh"):
            x = list(x) if hist["container"] == "list" else np.array(x, dtype=float)
        for i, val in st.get("set", []):
            if i < len(x):
                x[i] = val                               # in place: same container object as in the previous call
        cur = [float(a) for a in x]
        verdicts = [(op, *run_refused(v, cur_w, op, cur)) for op in st.get("refused", [])]
        try:
            if st["op"] == "jac":
                out = v.compute_jac(x, st["idx"]) if st.get("idx") is not None else v.compute_jac(x)
                out = np.atleast_1d(np.asarray(out, dtype=float))
            elif st["op"] == "eval":
                out = float(np.real(v.evaluate_parameters(x)))
            else:
                out = v.get_final_state(x).full().ravel()
        except Exception as e:  # canonicalised by the caller
            out = e
        yield t, st, cur, out, cur_w, verdicts, [b.name for b in v.blocks]



# ------------------------------------------------------------------------------------------------
# parameter containers of different types / dtypes (values exactly representable in every one of them)
CONTAINER_KINDS = ["list_int", "tuple_int", "tuple_float", "int64", "int32", "float32", "float16", "longdouble", "object",
                   "mixed", "np_float_scalars", "np_int_scalars", "list_float"]
HALF_KINDS = {"tuple_float", "float32", "float16", "longdouble", "object", "mixed", "np_float_scalars", "list_float"}


def make_container(kind, vals):
    """the vector `vals` (integers, or multiples of 1/2 for the kinds in HALF_KINDS) as a container of the given kind"""
    if kind == "list_int":
        return [int(a) for a in vals]
    if kind == "tuple_int":
        return tuple(int(a) for a in vals)
    if kind == "tuple_float":
        return tuple(float(a) for a in vals)
    if kind == "list_float":
        return [float(a) for a in vals]
    if kind == "int64":
        return np.array([int(a) for a in vals], dtype=np.int64)
    if kind == "int32":
        return np.array([int(a) for a in vals], dtype=np.int32)
    if kind in ("float32", "float16", "longdouble"):
        return np.array(vals, dtype={"float32": np.float32, "float16": np.float16, "longdouble": np.longdouble}[kind])
    if kind == "object":
        return np.array([int(a) if float(a).is_integer() else float(a) for a in vals], dtype=object)
    if kind == "mixed":
        return [int(a) if (i % 2 == 0 and float(a).is_integer()) else float(a) for i, a in enumerate(vals)]
    if kind == "np_float_scalars":
        return [np.float64(a) for a in vals]
    if kind == "np_int_scalars":
        return [np.int64(int(a)) for a in vals]
    raise ValueError("unknown container kind " + kind)


def container_values(rng, kind, nfree, pattern):
    if pattern == "ones":
        return [1] * nfree
    if pattern == "arange":
        return list(range(nfree))
    if kind in HALF_KINDS and pattern == "halves":
        return [rng.randint(-8, 8) / 2 for _ in range(nfree)]
    return [rng.randint(-4, 4) for _ in range(nfree)]


# ------------------------------------------------------------------------------------------------
# what optimize_parameters(use_jac=True) hands to scipy: a custom `method` callable records the cost and the jacobian callables
def optimizer_handoffs(w, initial, layer_by_layer=True, move=0.6):
    """run optimize_parameters(initial, method=<recording callable>, use_jac=True, layer_by_layer=...) on a real VQA;
    -> list of {"layer", "fixed" (the args scipy got), "x", "got" (jac(x,*args)), "fd" (central differences of fun(x,*args))}
    for the start point of each minimisation and one moved point; the recorded method returns the moved point, so the
    parameters fixed for later layers are not the initial ones"""
    import contextlib, io
    from scipy.optimize import OptimizeResult
    v = build_vqa(w)
    rec = []

    def method(fun, x0, args=(), jac=None, **kw):
        x0 = np.asarray(x0, dtype=float)
        layer = len([r for r in rec if r["first"]]) + 1
        rng = np.random.default_rng([int(w.get("seed", 0)), layer, 77])
        x1 = x0 + move * rng.uniform(-1, 1, len(x0))
        for k, x in enumerate((x0, x1)):
            got = None if not callable(jac) else np.atleast_1d(np.asarray(jac(x, *args), dtype=float))
            h = 1e-5
            fd = np.array([(fun(x + h * e, *args) - fun(x - h * e, *args)) / (2 * h) for e in np.eye(len(x))], dtype=float)
            rec.append({"layer": layer, "first": k == 0, "fixed": [float(a) for a in (np.ravel(args[0]) if args else [])],
                        "x": [float(a) for a in x], "got": got, "fd": fd, "num_layers": v.num_layers})
        return OptimizeResult(x=x1, fun=fun(x1, *args), nfev=1, success=True)

    with contextlib.redirect_stdout(io.StringIO()):
        v.optimize_parameters(initial=list(initial), method=method, use_jac=True, layer_by_layer=layer_by_layer)
    return rec


def layerwise_witnesses(rng, count):
    """>= 2 layers, at least one PARAMETERISED initial block (Hamiltonian / ParameterizedHamiltonian), layer blocks with parameters"""
    for n in range(count):
        nq = 1 + n % 2
        ini = [{"kind": "h", "nterms": 0, "initial": True}, {"kind": "p", "nterms": 2, "initial": True},
               {"kind": "p", "nterms": 1 + n % 3, "initial": True}][n % 3]
        lay = [{"kind": "h", "nterms": 0, "initial": False}, {"kind": "p", "nterms": 2, "initial": False}][(n // 3) % 2]
        blocks = [dict(ini)]
        if n % 4 == 1:
            blocks.append({"kind": "n", "nterms": 0, "initial": False})
        blocks.append(dict(lay))
        if n % 5 == 2:
            blocks.insert(1, {"kind": "u", "nterms": 0, "initial": True})
        if n % 7 == 3:
            blocks.append({"kind": "h", "nterms": 0, "initial": True})       # an initial block AFTER a layer block
        w = {"nq": nq, "layers": 2 + n % 2, "blocks": blocks, "seed": 12000 + n}
        w["optimize"] = {"layer_by_layer": True, "initial": [round(rng.uniform(-3.0, 3.0), 4) for _ in range(nfree_of(w))]}
        yield w

class Word:
    """element of the free monoid; the Qobj identity that starts both lists acts as the empty word"""

    def __init__(self, w):
        self.w = tuple(w)

    def __mul__(self, o):
        return Word(self.w + (o.w if isinstance(o, Word) else ()))

    def __rmul__(self, o):
        return Word((o.w if isinstance(o, Word) else ()) + self.w)


def word_str(x):
    return ".".join(map(str, x.w)) if isinstance(x, Word) else ""


def fd_gradient(v, angles, params, h=1e-5):
    out = []
    for j in params:
        ap, am = list(angles), list(angles)
        ap[j] += h
        am[j] -= h
        out.append((np.real(v.evaluate_parameters(ap)) - np.real(v.evaluate_parameters(am))) / (2 * h))
    return np.array(out)


def structures(maxlen, kinds=("h", "u", "n", "p1", "p2")):
    opts = [(k, ini) for k in kinds for ini in (False, True)]
    for n in range(1, maxlen + 1):
        for combo in itertools.product(opts, repeat=n):
            yield [{"kind": k[0], "nterms": int(k[1:]) if k[0] == "p" else 0, "initial": ini} for k, ini in combo]


class C19(PropertyCheck):
    id = "C19"
    lean_modules = ["QipVerif.Props.C19"]
    drivers = ["drv_vqa"]
    theorems = [
        "QipVerif.C19.series_matches_circuit",
        "QipVerif.C19.free_params_eq_series",
        "QipVerif.C19.prefix_suffix",
        "QipVerif.C19.product_rule",
        "QipVerif.C19.jac_entry_is_partial_derivative",
        "QipVerif.C19.cost_real",
        "QipVerif.C19.jac_shape_and_entries",
        "QipVerif.C19.jac_default_full",
        "QipVerif.C19.ham_block_derivative",
        "QipVerif.C19.exp_directional_derivative",
        "QipVerif.C19.expFrechet_is_fderiv",
        "QipVerif.C19.block_derivative_is_partial",
        "QipVerif.C19.jac_is_gradient",
        "QipVerif.C19.jac_is_gradient_default",
        "QipVerif.C19.jac_ignores_cost_method",
        "QipVerif.C19.jac_without_observable",
        "QipVerif.C19.jac_shape_and_entries_partial",
        "QipVerif.C19.C19_counterexample_orig",
        "QipVerif.C19.C19_orig_refuted",
    ]
    level_text = ("Lean 4 theorems, for every block list (fixed unitaries, native gates, Hamiltonian blocks exp(-i theta H), "
                  "ParameterizedHamiltonian blocks exp(-i(sum_j p_j H_j + C)) with any number of arbitrary, non-commuting terms; any "
                  "initial flags), every layer count, parameter vector, index list, observable and state: whenever compute_jac (as "
                  "repaired by fix C19-1) returns, it returns one entry per requested free parameter in increasing order, and the "
                  "number it computes for an entry, cost_derivative(U, U_prods_back[n-1-k] * get_unitary_derivative(angles[i:i+n], t) "
                  "* U_prods[k]), IS the partial derivative (Mathlib HasDerivAt in that coordinate) of Re<psi|U(theta)^dag O "
                  "U(theta)|psi>, U the ordered product of the propagators of construct_circuit(theta) (jac_is_gradient, "
                  "jac_is_gradient_default). The matrix calculus is proved with Mathlib's matrix exponential: d/dtheta exp(-i theta H) = "
                  "exp(-i theta H)(-iH) for every complex square H; for arbitrary non-commuting A, E the map t -> exp(A+tE) is "
                  "differentiable at 0 with derivative expFrechet A E = int_0^1 e^{sA} E e^{(1-s)A} ds (Duhamel; proved here, "
                  "Mathlib only has the commuting case), which is the Frechet derivative fderiv exp A applied to E, equal to e^A E "
                  "when A, E commute; hence get_unitary_derivative of every block kind is the partial derivative of get_unitary "
                  "(block_derivative_is_partial). Bookkeeping as before (series <-> circuit slices, prefix/suffix products over any "
                  "monoid, product rule, shape), counter-example + partial theorem for the loop as shipped before the fix, and the "
                  "cost configuration (compute_jac ignores cost_method/cost_func; NotImplementedError without observable). Model tied "
                  "to the code by an exact correspondence of series, slices, jacobian entries (block, slice, term, prefix and suffix "
                  "index read from the implementation's own calls), product words, exception classes, and by a numpy re-evaluation "
                  "of the Lean semantics (every propagator, every derivative matrix against the block-triangular formula and the "
                  "Duhamel integral, the cost, every jacobian entry; 1e-9).")
    level_note = ("proved for the model of compute_jac with fix C19-1 applied (as /repo now is); the loop as shipped earlier is "
                  "refuted by C19_counterexample_orig and covered by jac_shape_and_entries_partial. Trusted, not proved: floating "
                  "point; Qobj.expm computes the matrix exponential; scipy.linalg.expm_frechet(A,E) computes the derivative of exp "
                  "at A in direction E (its documented meaning; that this quantity exists, is unique and is the partial derivative "
                  "of the block unitary IS proved); QubitCircuit.propagators / circ.run agree with the ordered product (compared "
                  "numerically on every case). Python-function blocks are outside (compute_jac raises TypeError, modelled); native "
                  "gates take no parameter in VQA (there are no parameterised library rotations in a VQA circuit). Cost modes STATE "
                  "and BITSTRING are outside: compute_jac differentiates the observable expectation only.")
    technique = ("Lean 4 proof (list induction, monoid algebra, Mathlib HasDerivAt / NormedSpace.exp: product rule, Duhamel formula "
                 "via the fundamental theorem of calculus and continuity of parametric integrals) + exact model/implementation "
                 "correspondence + numerical re-evaluation of the proved semantics")
    trusted_base = [
        "Lean 4.33 kernel; axioms propext, Classical.choice, Quot.sound",
        "numerics: floating point; Qobj.expm = matrix exponential; scipy.linalg.expm_frechet(A, E, compute_expm=False) = derivative "
        "of exp at A in direction E (= expFrechet A E of Lemmas/VqaExp.lean) — compared on every case with the block-triangular "
        "formula exp[[A,E],[0,A]] and (sampled) with the Duhamel integral, 1e-9 / 1e-7",
        "QubitCircuit.propagators returns one propagator per gate in gate order = user gate applied to arg_value; "
        "gate_sequence_product multiplies later propagators from the left (Model/Vqa.lean:fullProd); circ.run(|0..0>) = product "
        "applied to |0..0> — each compared numerically on every case (1e-9)",
        "py/props/c19.py (harness; instance-level wrappers around get_unitary_products / get_unitary_derivative / "
        "cost_derivative record indices and matrices, exceptions canonicalised to {angles,noangles,funcderiv,noobs,nocostfunc})",
    ]
    assumptions = ["contract on histories: VQA keeps no state between calls that depends on the parameter vector — every "
                   "compute_jac / evaluate_parameters / get_final_state call on an object that was used before, with a parameter "
                   "container (list or ndarray) that the caller updated IN PLACE since the previous call, must return what the same "
                   "call returns on a fresh VQA object with a fresh vector (the model is a function of (blocks, layers, vector, "
                   "indices) only); likewise the public attributes num_layers, cost_method, cost_observable and the block list (add_block) "
                   "ARE the configuration: after assigning them every call must equal the call on a fresh VQA built with the current "
                   "configuration (no memoised series/circuit may survive); a REFUSED call (add_block with a duplicate explicit or "
                   "automatic name, add_block(None), evaluate_parameters under an unknown cost_method, a too short parameter vector, "
                   "optimize_parameters with a bad `initial`, derivative of a fixed block) raises and leaves the configuration — block "
                   "list, user gates, layers, cost — exactly as accepted before, out-of-range indices_to_compute are ignored; checked on "
                   "interleaved histories against a fresh VQA built with the accepted configuration",
                   "observable cost mode (cost_method OBSERVABLE with cost_observable set); the theorem is about the real part of the "
                   "cost, which is the cost for a Hermitian observable (cost_real)",
                   "function blocks (types.FunctionType) are outside the property's class: compute_jac raises TypeError for them (modelled)"]
    rule = ("case = (block structure: kinds h/u/n/p(k terms)/f with initial flags, layers 1-3, qubits 1-3, length of the angle "
            "vector, index list); all structures of <= 2 blocks (quick) / <= 3 blocks (thorough) over {h,u,n,p1,p2} x initial, "
            "every subset of indices when <= 3 free parameters (sampled beyond), then random longer structures and a malformed "
            "stream (wrong vector length, negative/duplicate/out-of-range indices, 0-term Hamiltonians, function blocks), the cost "
            "configurations (cost_method x observable set/None x cost_func set/None), special parameter vectors (all zeros, equal / "
            "vanishing coordinates, multiples of pi/2, coordinates 1e-12 apart; Pauli-string multi-parameter blocks whose summed "
            "Hamiltonian is degenerate there); parameter containers of different types / dtypes (lists and tuples of ints, integer / float32 / float16 / "
            "longdouble / object ndarrays, mixed lists, numpy scalars) and the jacobians requested by optimize_parameters(use_jac=True); every ordering of small Pauli-string sets (identity and constant terms included) as 3-4 terms of a "
            "ParameterizedHamiltonian; histories on one VQA object with one list/ndarray updated in place and public attributes "
            "(num_layers, cost_method, cost_observable, add_block) assigned and refused operations (duplicate add_block, unknown "
            "cost_method, short vectors, bad initial, out-of-range indices) executed between interleaved "
            "[also: the jac / fun callables handed to scipy by optimize_parameters(use_jac=True, layer_by_layer) per layer] "
            "compute_jac / evaluate_parameters / get_final_state calls (each call = the call on a fresh object); every in-class case that returns is also "
            "re-evaluated numerically (propagators, derivative matrices, cost, jacobian values); "
            "non-trivial = at least one free parameter and (>= 2 series entries or a multi-parameter block)")

    # ---------------------------------------------------------------------------------
    def _compare(self, ctx, res, w, v, m, idx, as_array=False, tags=()):
        """one compute_jac call on the real object vs the model"""
        blocks, L = w["blocks"], w["layers"]
        angles = [round(0.37 + 0.61 * j + 0.013 * j * j, 6) for j in range(m)]
        inp = {"nq": w["nq"], "layers": L, "blocks": enc_blocks(blocks), "m": m, "idx": idx, "array": as_array}
        nfree = nfree_of(w)
        series_len = len(blocks) + (L - 1) * sum(1 for b in blocks if not b["initial"])
        nontrivial = nfree >= 1 and (series_len >= 2 or any(nparams(b) > 1 for b in blocks))
        tags = list(tags) + [f"layers={L}", f"nblocks={len(blocks)}", f"nfree={min(nfree, 6)}{'+' if nfree > 6 else ''}",
                             "idx=default" if idx is None else "idx=subset"]
        idxs = "default" if idx is None else ("none" if not idx else ",".join(map(str, idx)))
        line = f"jac layers={L} blocks={enc_blocks(blocks)} nangles={m} idx={idxs} orig=0"
        if "cm" in w or "obs" in w:
            line += f" obs={int(bool(w.get('obs', 1)))} cm={w.get('cm', 'o')}"
            inp.update(cm=w.get("cm", "o"), obs=int(bool(w.get("obs", 1))))
        model, circ_line = ctx.driver("drv_vqa").run([line, f"circuit layers={L} blocks={enc_blocks(blocks)} nangles={m}"])
        status, jac, log = instrumented_jac(v, np.array(angles) if as_array else angles, idx)
        wit = dict(w, angles=angles, indices=idx)
        res.case(inp, nontrivial=nontrivial, tags=tags + ["verdict=" + ("ok" if status == "ok" else status.split(":")[0])])
        if status != "ok":
            impl = "err " + status
        else:
            ents, problems = entries_from_log(log, angles)
            impl = "ok " + ";".join(ents)
            if problems:
                res.disagree(inp, model, impl, "bookkeeping inside compute_jac: " + problems[0], wit)
                return
            vals = [e[1] for e in log if e[0] == "cd"]
            if len(jac) != len(vals) or any(a != b for a, b in zip(jac, vals)):
                res.disagree(inp, model, impl, "returned vector is not the list of cost_derivative values in order", wit)
                return
        if model.rstrip() != impl.rstrip():
            res.disagree(inp, model, impl, "jacobian entries (k:block:start:n:term) or verdict", wit)
            return
        if status == "ok" and self.in_class(w):
            bad = self._semantic(ctx, w, v, angles, model, log, jac, circ_line)
            res.hist["semantic-evaluated"] = res.hist.get("semantic-evaluated", 0) + 1
            res.hist["semantic-entries"] = res.hist.get("semantic-entries", 0) + len(jac)
            if bad:
                res.disagree(inp, bad[1], bad[2], "matrix semantics (Lemmas/VqaSem.lean): " + bad[0], wit)

    def _semantic(self, ctx, w, v, angles, model, log, jac, circ):
        """numpy evaluation of SBlock.unitary / dUnitary / props / costOf / jacValue at the model's indices,
        compared with the implementation's propagators, derivative matrices, cost and jacobian (1e-9).
        -> None or (what, model value, implementation value)"""
        nq, L = w["nq"], w["layers"]
        d = 2 ** nq
        sem = [SemBlock(b, nq) for b in v.blocks]
        body = circ[3:].strip()
        gates = []
        for g in (body.split(";") if body else []):
            blk, _nat, arg = g.split(":")
            gates.append((int(blk), [] if arg == "-" else [int(x) for x in arg.strip("[]").split(".") if x]))
        ps = [sem[b].unitary([angles[q] for q in pos]) for b, pos in gates]
        impl_ps = [q.full() for q in v.construct_circuit(angles).propagators()]
        if len(ps) != len(impl_ps):
            return "number of propagators", str(len(ps)), str(len(impl_ps))
        for k, (a, b) in enumerate(zip(ps, impl_ps)):
            if not close(b, a):
                return (f"propagator {k} is not get_unitary of block {gates[k][0]} at the slice {gates[k][1]}",
                        np.round(a, 6).tolist(), np.round(b, 6).tolist())
        U = _prod(ps, d)
        psi = np.zeros(d, dtype=complex)
        psi[0] = 1.0
        O = v.cost_observable.full()
        if w.get("cm", "o") == "o":
            cost = float(np.real(np.vdot(U @ psi, O @ (U @ psi))))
            ic = float(np.real(v.evaluate_parameters(angles)))
            if not close(ic, cost):
                return "evaluate_parameters is not <psi|U^dag O U|psi> with U the ordered product of the block unitaries", cost, ic
        ents = [tuple(int(x) for x in e.split(":")) for e in model[3:].strip().split(";") if e]
        dmats = [ev[2].full() for ev in log if ev[0] == "dmat"] if log is not None else [None] * len(ents)
        if len(dmats) != len(ents) or len(jac) != len(ents):
            return "number of derivative matrices / jacobian entries", str(len(ents)), f"{len(dmats)}/{len(jac)}"
        for i, (k, blk, start, nn, term) in enumerate(ents):
            args = [angles[q] for q in range(start, start + nn)]
            dB = sem[blk].d_unitary(args, term)
            if dmats[i] is not None and not close(dmats[i], dB):
                return (f"entry {i}: get_unitary_derivative(block {blk}, angles[{start}:{start + nn}], term {term}) is not the derivative "
                        "of exp at -iH(p) in direction -iH_term (expFrechet, block-triangular formula) / U*(-iH)",
                        np.round(dB, 6).tolist(), np.round(dmats[i], 6).tolist())
            if dmats[i] is not None and sem[blk].kind == "pham" and (i + len(ents) + start) % 7 == 0:
                dD = sem[blk].d_unitary(args, term, duhamel=True)
                if not close(dmats[i], dD, 1e-7):
                    return (f"entry {i}: get_unitary_derivative is not the Duhamel integral int_0^1 e^(sA) E e^((1-s)A) ds",
                            np.round(dD, 6).tolist(), np.round(dmats[i], 6).tolist())
            dU = _prod(ps[:k] + [dB] + ps[k + 1:], d)
            val = float(np.real(np.vdot(dU @ psi, O @ (U @ psi)) + np.vdot(U @ psi, O @ (dU @ psi))))
            if not close(float(jac[i]), val):
                return (f"jacobian entry {i} (parameter {start + term}) is not cost_derivative(U, suffix*dBlock*prefix) = jacValue",
                        val, float(jac[i]))
        return None

    def _compare_static(self, ctx, res, w, v, m):
        """series, number of free parameters, constructed circuit"""
        blocks, L = w["blocks"], w["layers"]
        enc = enc_blocks(blocks)
        angles = [round(0.37 + 0.61 * j + 0.013 * j * j, 6) for j in range(m)]
        pos = {a: i for i, a in enumerate(angles)}
        outs = ctx.driver("drv_vqa").run([f"series layers={L} blocks={enc}", f"nfree layers={L} blocks={enc}",
                                          f"circuit layers={L} blocks={enc} nangles={m}"])
        inp = {"nq": w["nq"], "layers": L, "blocks": enc, "m": m, "what": "static"}
        res.case(inp, nontrivial=len(blocks) > 1 or L > 1, tags=["static"])
        wit = dict(w, angles=angles, indices=None)
        ident = {id(b): j for j, b in enumerate(v.blocks)}
        ser = "ok " + ",".join(str(ident[id(b)]) for b in v.get_block_series())
        if ser != outs[0]:
            res.disagree(inp, outs[0], ser, "get_block_series", wit)
        nf = f"ok {v.get_free_parameters_num()}"
        if nf != outs[1]:
            res.disagree(inp, outs[1], nf, "get_free_parameters_num", wit)
        try:
            circ = v.construct_circuit(angles)
            byname = {b.name: j for j, b in enumerate(v.blocks) if not b.is_native_gate}
            bynative = {(b.operator, tuple(b.targets)): j for j, b in enumerate(v.blocks) if b.is_native_gate}
            gs = []
            for g in circ.gates:
                if g.name in byname:
                    a = g.arg_value
                    arg = "-" if a is None else "[" + ".".join(str(pos.get(float(x), "?")) for x in a) + "]"
                    if list(g.targets) != list(range(w["nq"])):
                        arg += "!targets"
                    gs.append(f"{byname[g.name]}:0:{arg}")
                else:
                    gs.append(f"{bynative.get((g.name, tuple(g.targets)), '?')}:1:-")
            ci = "ok " + ";".join(gs)
        except Exception as e:
            ci = "err " + classify_exc(e)
        if ci.rstrip() != outs[2].rstrip():
            res.disagree(inp, outs[2], ci, "construct_circuit (block:native:slice per gate)", wit)

    def _compare_words(self, ctx, res):
        qutip, vqa = _impl()
        v = vqa.VQA(2, 1)
        for n in range(0, 7):
            f, b = v.get_unitary_products([Word([i]) for i in range(n)])
            impl = "ok f=" + "|".join(word_str(x) for x in f) + " b=" + "|".join(word_str(x) for x in b)
            model = ctx.driver("drv_vqa").run([f"prods n={n}"])[0]
            inp = {"what": "get_unitary_products on words", "n": n}
            res.case(inp, nontrivial=n >= 2, tags=["words"])
            if impl.rstrip() != model.rstrip():
                res.disagree(inp, model, impl, "prefix/suffix product lists (order of factors)",
                             {"nq": 1, "layers": 1, "blocks": [{"kind": "h", "nterms": 0, "initial": False}] * max(n, 1),
                              "seed": 1, "angles": [0.3 + 0.2 * i for i in range(max(n, 1))], "indices": None})

    def _index_sets(self, rng, nfree, m, exhaustive_upto=3):
        yield None
        if nfree <= exhaustive_upto:
            for r in range(0, nfree + 1):
                for c in itertools.combinations(range(nfree), r):
                    yield list(c)
        else:
            yield []
            for _ in range(4):
                yield sorted(rng.sample(range(nfree), rng.randint(1, nfree)))
            s = rng.sample(range(nfree), rng.randint(1, nfree))
            yield s + s[:1]            # unsorted, with a duplicate

    def correspondence(self, ctx, res):
        rng = ctx.rng
        maxlen = 3 if ctx.thorough else 2
        count = 0
        for blocks in structures(maxlen):
            for L in (1, 2, 3):
                nqs = (1, 2, 3) if (ctx.thorough and len(blocks) <= 2) else (1 + (count % 3),)
                count += 1
                for nq in nqs:
                    w = {"nq": nq, "layers": L, "blocks": blocks, "seed": count}
                    v = build_vqa(w)
                    nfree = nfree_of(w)
                    self._compare_static(ctx, res, w, v, nfree)
                    for idx in self._index_sets(rng, nfree, nfree):
                        self._compare(ctx, res, w, v, nfree, idx, as_array=(count % 2 == 0), tags=["exhaustive"])
        res.exhaustive = True
        res.notes.append(f"exhaustive over all block lists of length <= {maxlen} over {{h,u,n,p(1 term),p(2 terms)}} x initial flag, "
                         "layers 1-3, qubits 1-3 (cycled in quick), default indices plus every subset of indices when <= 3 free "
                         "parameters (sampled subsets beyond)")
        # random longer structures
        n_rand = 400 if ctx.thorough else 60
        for t in range(n_rand):
            w = self._random_witness(rng, allow_func=False)
            v = build_vqa(w)
            nfree = nfree_of(w)
            self._compare_static(ctx, res, w, v, nfree)
            for idx in itertools.islice(self._index_sets(rng, nfree, nfree, exhaustive_upto=2), 5):
                self._compare(ctx, res, w, v, nfree, idx, as_array=bool(t % 2), tags=["random"])
        # malformed stream: wrong vector length, odd index lists, 0-term Hamiltonians, function blocks
        n_bad = 300 if ctx.thorough else 60
        for t in range(n_bad):
            w = self._random_witness(rng, allow_func=True, allow_p0=True, maxblocks=3)
            v = build_vqa(w)
            nfree = nfree_of(w)
            mode = rng.choice(["short", "long", "oddidx", "func", "exact"])
            m = nfree
            idx = None
            if mode == "short" and nfree > 0:
                m = rng.randint(0, nfree - 1)
            elif mode == "long":
                m = nfree + rng.randint(1, 3)
            if mode == "oddidx" or rng.random() < 0.3:
                idx = [rng.randint(-2, nfree + 2) for _ in range(rng.randint(0, nfree + 2))]
            self._compare_static(ctx, res, w, v, m)
            self._compare(ctx, res, w, v, m, idx, tags=["malformed=" + mode])
        self._compare_words(ctx, res)
        self._compare_costcfg(ctx, res)
        self._special_pass(ctx, res)
        self._history_pass(ctx, res)
        self._container_pass(ctx, res)
        self._handoff_pass(ctx, res)

    def _compare_special(self, ctx, res, w, v, angles, tags=()):
        """compute_jac at a special parameter vector (zeros, equal, pi-multiples, 1e-12 apart; coordinates need not be
        distinct, so the slices are not re-identified here — they are for the same structure at the generic vector):
        verdict and number of entries against the model, then the numerical re-evaluation of the proved semantics"""
        blocks, L = w["blocks"], w["layers"]
        m = len(angles)
        inp = {"nq": w["nq"], "layers": L, "blocks": enc_blocks(blocks), "special_angles": [float(a) for a in angles],
               "paulis": [b.get("paulis") for b in blocks if b.get("paulis")], "seed": w.get("seed")}
        wit = dict(w, angles=[float(a) for a in angles], indices=None)
        model, circ_line = ctx.driver("drv_vqa").run([f"jac layers={L} blocks={enc_blocks(blocks)} nangles={m} idx=default orig=0",
                                                      f"circuit layers={L} blocks={enc_blocks(blocks)} nangles={m}"])
        status, jac, log = instrumented_jac(v, list(angles), None)
        res.case(inp, nontrivial=True, tags=list(tags) + ["special-angles"])
        if status != "ok" or not model.startswith("ok"):
            if model.rstrip() != ("err " + status if status != "ok" else "ok"):
                res.disagree(inp, model, status, "verdict at a special parameter vector", wit)
            return
        bad = self._semantic(ctx, w, v, list(angles), model, log, jac, circ_line)
        res.hist["semantic-evaluated"] = res.hist.get("semantic-evaluated", 0) + 1
        res.hist["semantic-entries"] = res.hist.get("semantic-entries", 0) + len(jac)
        if bad:
            res.disagree(inp, bad[1], bad[2], "matrix semantics at a special parameter vector (Lemmas/VqaSem.lean): " + bad[0], wit)

    def _special_pass(self, ctx, res):
        rng = ctx.rng
        # Pauli-string multi-parameter blocks: every vector over the special values when <= 3 parameters (sampled beyond)
        for n in range(36 if ctx.thorough else 18):
            w = pauli_witness(rng, n)
            v = build_vqa(w)
            nfree = nfree_of(w)
            self._compare_static(ctx, res, w, v, nfree)
            self._compare(ctx, res, w, v, nfree, None, tags=["pauli"])
            vals = [0.0, np.pi / 2, np.pi, 0.7, 1e-12]
            if nfree <= (3 if ctx.thorough else 2):
                vecs = [list(c) for c in itertools.product(vals, repeat=nfree)]
            else:
                vecs = list(special_angles(rng, nfree, 40 if ctx.thorough else 14))
            for a in vecs:
                self._compare_special(ctx, res, w, v, a, tags=["pauli"])
        # 3-4 Pauli-string terms (identity and constant terms included) in every ordering: consecutive terms may commute
        # while a non-consecutive pair does not
        for n, w in enumerate(commuting_witnesses()):
            v = build_vqa(w)
            nfree = nfree_of(w)
            self._compare(ctx, res, w, v, nfree, None, as_array=bool(n % 2), tags=["term-orderings"])
            if n % 4 == 0:
                self._compare_special(ctx, res, w, v, [0.7] * nfree, tags=["term-orderings"])
        # random-Hermitian structures with a multi-parameter block: zeros, equal, switched-off terms, 1e-12 apart
        k = 0
        for blocks in structures(2):
            if not any(b["kind"] == "p" and b["nterms"] >= 2 for b in blocks):
                continue
            for L in (1, 2):
                k += 1
                w = {"nq": 1 + k % 3, "layers": L, "blocks": blocks, "seed": 8000 + k}
                v = build_vqa(w)
                for a in special_angles(rng, nfree_of(w), 8 if ctx.thorough else 3):
                    self._compare_special(ctx, res, w, v, a, tags=["herm"])
        for t in range(120 if ctx.thorough else 25):
            w = self._random_witness(rng)
            v = build_vqa(w)
            for a in special_angles(rng, nfree_of(w), 4):
                self._compare_special(ctx, res, w, v, a, tags=["random"])

    def _history_pass(self, ctx, res):
        """one VQA object, one parameter container updated in place between calls (list and ndarray), interleaved
        compute_jac (all / subsets) / evaluate_parameters / get_final_state, also a fresh container with equal values, and
        assignments to the object's public attributes between calls (num_layers up/down, cost_method, cost_observable,
        add_block).  The model is stateless: every call must equal the same call on a fresh VQA object built with the CURRENT
        configuration and a fresh vector, and (in class) the numerical re-evaluation of the Lean semantics at the current vector."""
        rng = ctx.rng
        for n in range(200 if ctx.thorough else 60):
            w = pauli_witness(rng, rng.randint(0, 10 ** 4)) if n % 3 == 0 else self._random_witness(rng, maxblocks=3)
            nfree = nfree_of(w)
            if nfree == 0:
                continue
            if n % 5 == 1:      # a user-chosen name that the automatic name of the NEXT unnamed block will collide with
                w = dict(w, blocks=[dict(b) for b in w["blocks"]])
                w["blocks"][rng.randrange(len(w["blocks"]))]["name"] = "U" + str(len(w["blocks"]))
                hist = _make_refused_history(rng, w, [round(rng.uniform(-3.0, 3.0), 4) for _ in range(nfree)])
            else:
                hist = make_history(rng, nfree, w=w)
            for t, st, cur, out, cw, verdicts, names in run_history(w, hist):
                enc, L, nf = enc_blocks(cw["blocks"]), cw["layers"], nfree_of(cw)
                inp = {"nq": w["nq"], "layers": w["layers"], "blocks": enc_blocks(w["blocks"]), "seed": w.get("seed"),
                       "history": hist, "step": t}
                wit = dict(w, history=dict(hist, steps=hist["steps"][:t + 1]))
                res.case(inp, nontrivial=t > 0, tags=["history", "history-" + hist["container"], "history-op=" + st["op"]] +
                         (["history-cfg=" + c[0] for c in st.get("cfg", [])]))
                fresh = build_vqa(cw)
                badv = [(op, o, e) for op, o, e in verdicts if not refused_matches(o, e)]
                if badv:
                    res.disagree(inp, badv[0][2], badv[0][1], f"history step {t}: refused operation {badv[0][0]['op']} did not end as the "
                                 "model of the refusals says", wit)
                    break
                if names != [b.name for b in fresh.blocks]:
                    res.disagree(inp, [b.name for b in fresh.blocks], names, f"history step {t}: block list after the refused operations "
                                 f"{[op['op'] for op, _, _ in verdicts]} differs from the accepted configuration", wit)
                    break
                for op, _, _ in verdicts:
                    res.hist["refused=" + op["op"]] = res.hist.get("refused=" + op["op"], 0) + 1
                try:
                    if st["op"] == "jac":
                        ref = np.atleast_1d(np.asarray(fresh.compute_jac(list(cur), st["idx"]) if st.get("idx") is not None
                                                       else fresh.compute_jac(list(cur)), dtype=float))
                    elif st["op"] == "eval":
                        ref = float(np.real(fresh.evaluate_parameters(list(cur))))
                    else:
                        ref = fresh.get_final_state(list(cur)).full().ravel()
                except Exception as e:
                    ref = e
                cfgs = f" after assigning {st['cfg']}" if st.get("cfg") else ""
                if st.get("refused"):
                    cfgs += f" after the refused operations {[op['op'] for op in st['refused']]}"
                if isinstance(out, Exception) or isinstance(ref, Exception):
                    a = classify_exc(out) if isinstance(out, Exception) else "ok"
                    b = classify_exc(ref) if isinstance(ref, Exception) else "ok"
                    if a != b:
                        res.disagree(inp, b, a, f"history step {t} ({st['op']}{cfgs}): verdict differs from the same call on a fresh "
                                     "VQA with the current configuration", wit)
                        break
                    continue
                if not close(out, ref, 1e-12):
                    res.disagree(inp, np.round(np.real(ref), 9).tolist(), np.round(np.real(out), 9).tolist(),
                                 f"history step {t}: {st['op']}{cfgs} on the reused object/container differs from the same call on a "
                                 f"fresh VQA with the current configuration (layers={L}, blocks={enc}) at the current vector {cur}", wit)
                    break
                if st["op"] == "jac" and self.in_class(cw) and len(cur) == nf:
                    idxs = "default" if st.get("idx") is None else ",".join(map(str, st["idx"]))
                    model, circ_line = ctx.driver("drv_vqa").run(
                        [f"jac layers={L} blocks={enc} nangles={nf} idx={idxs} orig=0", f"circuit layers={L} blocks={enc} nangles={nf}"])
                    # derivative matrices of THIS call on the reused object are not recorded (no wrappers inside a history): use
                    # a recording run on a fresh object for them, the jacobian values are the reused object's
                    status, jac2, log = instrumented_jac(build_vqa(cw), list(cur), st.get("idx"))
                    if status == "ok" and model.startswith("ok"):
                        bad = self._semantic(ctx, cw, fresh, list(cur), model, log, out, circ_line)
                        if bad:
                            res.disagree(inp, bad[1], bad[2], f"history step {t}{cfgs}: matrix semantics at the current vector and "
                                         "configuration: " + bad[0], wit)
                            break

    def _container_pass(self, ctx, res):
        """compute_jac / evaluate_parameters with the parameter vector in containers of different types and dtypes (lists and
        tuples of Python ints, integer / float32 / float16 / longdouble / object ndarrays, mixed lists, numpy scalars): the
        model only sees the VALUES, so every call must equal the numerical re-evaluation of the Lean semantics at these values
        and the same call with a list of Python floats (1e-9); and the jacobians requested by optimize_parameters(use_jac=True)."""
        rng = ctx.rng
        n = 0
        for rep in range(6 if ctx.thorough else 2):
            for kind in CONTAINER_KINDS:
                n += 1
                w = pauli_witness(rng, rng.randint(0, 10 ** 4)) if n % 3 == 0 else self._random_witness(rng, maxblocks=3)
                nfree = nfree_of(w)
                if nfree == 0:
                    continue
                pattern = ["random", "ones", "halves", "arange"][n % 4]
                vals = container_values(rng, kind, nfree, pattern)
                fl = [float(a) for a in vals]
                idx = None if n % 3 else sorted(rng.sample(range(nfree), rng.randint(1, nfree)))
                enc, L = enc_blocks(w["blocks"]), w["layers"]
                idxs = "default" if idx is None else ",".join(map(str, idx))
                model, circ_line = ctx.driver("drv_vqa").run([f"jac layers={L} blocks={enc} nangles={nfree} idx={idxs} orig=0",
                                                              f"circuit layers={L} blocks={enc} nangles={nfree}"])
                v = build_vqa(w)
                inp = {"nq": w["nq"], "layers": L, "blocks": enc, "seed": w.get("seed"), "container": kind, "values": fl, "idx": idx}
                wit = dict(w, angles=fl, container=kind, indices=idx)
                res.case(inp, nontrivial=True, tags=["container", "container=" + kind])
                status, jac, log = instrumented_jac(v, make_container(kind, vals), idx)
                ref = build_vqa(w)
                try:
                    rj = ref.compute_jac(list(fl), idx) if idx is not None else ref.compute_jac(list(fl))
                    rstat = "ok"
                except Exception as e:
                    rj, rstat = None, classify_exc(e)
                if status != rstat:
                    res.disagree(inp, rstat, status, f"verdict of compute_jac for a {kind} container differs from a list of floats", wit)
                    continue
                if status != "ok":
                    continue
                jac = np.atleast_1d(np.asarray(jac))
                if jac.shape != np.shape(rj) or not close(np.asarray(jac, dtype=float), rj):
                    res.disagree(inp, np.round(rj, 9).tolist(), np.asarray(jac, dtype=float).round(9).tolist(),
                                 f"compute_jac with the vector {fl} passed as {kind} differs from the same vector as a list of floats", wit)
                    continue
                if self.in_class(w) and model.startswith("ok"):
                    bad = self._semantic(ctx, w, ref, fl, model, log, np.asarray(jac, dtype=float), circ_line)
                    res.hist["semantic-evaluated"] = res.hist.get("semantic-evaluated", 0) + 1
                    if bad:
                        res.disagree(inp, bad[1], bad[2], f"matrix semantics, vector passed as {kind}: " + bad[0], wit)
                        continue
                try:
                    e1 = float(np.real(v.evaluate_parameters(make_container(kind, vals))))
                    e2 = float(np.real(ref.evaluate_parameters(list(fl))))
                    if not close(e1, e2):
                        res.disagree(inp, e2, e1, f"evaluate_parameters with a {kind} container differs from a list of floats", wit)
                except Exception as e:
                    res.disagree(inp, "ok", classify_exc(e), f"evaluate_parameters raised for a {kind} container", wit)
        # the jacobians optimize_parameters asks for (initial='ones' builds a list of Python ints; layer_by_layer uses subsets)
        small = [{"nq": 1, "layers": 1, "blocks": [{"kind": "p", "nterms": 2, "initial": False, "paulis": ["X", "Z"]}], "seed": 11},
                 {"nq": 1, "layers": 2, "blocks": [{"kind": "h", "nterms": 0, "initial": True}, {"kind": "h", "nterms": 0, "initial": False}],
                  "seed": 12},
                 {"nq": 2, "layers": 2, "blocks": [{"kind": "n", "nterms": 0, "initial": True},
                                                   {"kind": "p", "nterms": 2, "initial": False, "paulis": ["ZI", "IX"]}], "seed": 13}]
        for k, w in enumerate(small if ctx.thorough else small[:2]):
            for lbl in (False, True):
                v = build_vqa(w)
                calls = []
                orig = v.compute_jac

                def rec(angles, indices_to_compute=None, _o=orig, _v=v):
                    out = _o(angles, indices_to_compute) if indices_to_compute is not None else _o(angles)
                    calls.append(([float(a) for a in angles], None if indices_to_compute is None else list(indices_to_compute),
                                  _v.num_layers, np.array(out, dtype=float)))
                    return out
                v.compute_jac = rec
                inp = {"what": "optimize_parameters(initial='ones', use_jac=True)", "layer_by_layer": lbl, "blocks": enc_blocks(w["blocks"]),
                       "layers": w["layers"], "nq": w["nq"]}
                res.case(inp, nontrivial=True, tags=["container", "optimize_parameters"])
                import contextlib, io
                try:
                    with contextlib.redirect_stdout(io.StringIO()):
                        v.optimize_parameters(initial="ones", method="BFGS", use_jac=True, layer_by_layer=lbl)
                except Exception as e:
                    res.disagree(inp, "ok", classify_exc(e), "optimize_parameters(initial='ones', use_jac=True) raised", dict(w))
                    continue
                finally:
                    del v.compute_jac
                for fl, idx, Lc, out in calls[:3] + calls[-2:]:
                    cw = dict(w, layers=Lc)
                    enc = enc_blocks(cw["blocks"])
                    idxs = "default" if idx is None else ("none" if not idx else ",".join(map(str, idx)))
                    model, circ_line = ctx.driver("drv_vqa").run([f"jac layers={Lc} blocks={enc} nangles={len(fl)} idx={idxs} orig=0",
                                                                  f"circuit layers={Lc} blocks={enc} nangles={len(fl)}"])
                    if not model.startswith("ok"):
                        res.disagree(inp, model, "ok", "optimize_parameters obtained a jacobian where the model raises", dict(cw, angles=fl))
                        break
                    bad = self._semantic(ctx, cw, build_vqa(cw), fl, model, None, out, circ_line)
                    if bad:
                        res.disagree(inp, bad[1], bad[2], "jacobian handed to the optimiser: " + bad[0], dict(cw, angles=fl, indices=idx))
                        break

    def _handoff_pass(self, ctx, res):
        """the `jac` callable scipy receives from optimize_parameters(use_jac=True), per minimisation (per layer when
        layer_by_layer=True; >= 2 layers; parameterised initial blocks): compared with central differences of the `fun` callable
        received together with it, and with the model's gradient of the free parameters of the current layer (the Lean model's
        entries for indices [nfree(l-1), nfree(l)) of the vector fixed ++ x, re-evaluated numerically)"""
        rng = ctx.rng
        ws = list(layerwise_witnesses(rng, 24 if ctx.thorough else 8))
        for n, w in enumerate(ws):
            for lbl in ((True, False) if n % 4 == 0 else (True,)):
                inp = {"what": "jacobian handed to scipy by optimize_parameters", "layer_by_layer": lbl, "nq": w["nq"],
                       "layers": w["layers"], "blocks": enc_blocks(w["blocks"]), "initial": w["optimize"]["initial"], "seed": w["seed"]}
                wit = dict(w, optimize=dict(w["optimize"], layer_by_layer=lbl))
                res.case(inp, nontrivial=True, tags=["optimizer-handoff", f"layer_by_layer={int(lbl)}"])
                try:
                    rec = optimizer_handoffs(w, w["optimize"]["initial"], lbl)
                except Exception as e:
                    res.disagree(inp, "ok", classify_exc(e), "optimize_parameters(use_jac=True) with a recording method raised", wit)
                    continue
                want_calls = 2 * (w["layers"] if lbl else 1)
                if len(rec) != want_calls:
                    res.disagree(inp, want_calls // 2, len(rec) // 2, "number of minimisations started by optimize_parameters", wit)
                    continue
                for r in rec:
                    Lc = r["layer"] if lbl else w["layers"]
                    cw = dict(w, layers=Lc)
                    full = r["fixed"] + r["x"]
                    nf, nprev = nfree_of(cw), (nfree_of(dict(w, layers=Lc - 1)) if (lbl and Lc > 1) else 0)
                    what = None
                    if r["num_layers"] != Lc or len(full) != nf or len(r["fixed"]) != nprev:
                        what = (f"minimisation {r['layer']}: num_layers={r['num_layers']}, {len(r['fixed'])} fixed + {len(r['x'])} free "
                                f"parameters; the model has {nprev} fixed + {nf - nprev} free for {Lc} layer(s)")
                    elif r["got"] is None or r["got"].shape != r["fd"].shape:
                        what = f"minimisation {r['layer']}: jacobian of shape {None if r['got'] is None else r['got'].shape} for {len(r['x'])} free parameters"
                    elif np.any(np.abs(r["got"] - r["fd"]) > 1e-6 + 1e-5 * np.abs(r["fd"])):
                        what = (f"minimisation {r['layer']} (layer_by_layer={lbl}), fixed {r['fixed']}, free {r['x']}: the jacobian handed to "
                                f"the optimiser {np.round(r['got'], 6).tolist()} is not the derivative of the cost handed to it "
                                f"{np.round(r['fd'], 6).tolist()}")
                    if what:
                        res.disagree(inp, "gradient of the current layer's free parameters", what, what, wit)
                        break
                    enc = enc_blocks(cw["blocks"])
                    idxs = ",".join(map(str, range(nprev, nf))) if nf > nprev else "none"
                    model, circ_line = ctx.driver("drv_vqa").run([f"jac layers={Lc} blocks={enc} nangles={nf} idx={idxs} orig=0",
                                                                  f"circuit layers={Lc} blocks={enc} nangles={nf}"])
                    bad = self._semantic(ctx, cw, build_vqa(cw), full, model, None, r["got"], circ_line) if model.startswith("ok") else \
                        ("model verdict", model, "ok")
                    if bad:
                        res.disagree(inp, bad[1], bad[2], f"minimisation {r['layer']}: jacobian handed to the optimiser vs the model's "
                                     f"entries for parameters {list(range(nprev, nf))}: " + bad[0], wit)
                        break

    def _compare_costcfg(self, ctx, res):
        """cost_method x cost_observable set/None x cost_func set/None: compute_jac ignores cost_method and cost_func,
        raises NotImplementedError without observable when an entry is requested; which quantity
        evaluate_parameters returns"""
        rng = ctx.rng
        structs = [[{"kind": "h", "nterms": 0, "initial": False}],
                   [{"kind": "u", "nterms": 0, "initial": True}, {"kind": "p", "nterms": 2, "initial": False}],
                   [{"kind": "f", "nterms": 0, "initial": False}, {"kind": "h", "nterms": 0, "initial": False}],
                   [{"kind": "h", "nterms": 0, "initial": True}, {"kind": "f", "nterms": 0, "initial": False}],
                   [{"kind": "n", "nterms": 0, "initial": False}]]
        n = 0
        for blocks in structs:
            for cm in "osb":
                for obs in (0, 1):
                    for func in (0, 1):
                        n += 1
                        w = {"nq": 1 + n % 2, "layers": 1 + n % 2, "blocks": blocks, "seed": 900 + n, "cm": cm, "obs": obs,
                             "func": func}
                        v = build_vqa(w)
                        nfree = nfree_of(w)
                        for idx in (None, [], [nfree - 1] if nfree else [0]):
                            self._compare(ctx, res, w, v, nfree, idx, tags=["costcfg", "cm=" + cm, f"obs={obs}"])
                        has_f = any(b["kind"] == "f" for b in blocks)
                        angles = [0.3 + 0.2 * j for j in range(nfree)]
                        model = ctx.driver("drv_vqa").run([f"evalkind cm={cm} obs={obs} func={func}"])[0]
                        try:
                            val = v.evaluate_parameters(angles)
                            impl = "ok costfunc" if val == SENTINEL else "ok observable"
                            if impl == "ok observable" and not has_f:
                                sem = [SemBlock(b, w["nq"]) for b in v.blocks]
                                pos, ps = 0, []
                                for b, sb in zip(blocks * 1, sem):
                                    k = nparams(b)
                                    ps.append(sb.unitary(angles[pos:pos + k]))
                                    pos += k
                                if w["layers"] == 1:
                                    u = _prod(ps, 2 ** w["nq"])
                                    want = float(np.real(np.vdot(u[:, 0], v.cost_observable.full() @ u[:, 0])))
                                    if not close(float(np.real(val)), want):
                                        impl = f"ok observable-with-wrong-value {val} vs {want}"
                        except Exception as e:
                            impl = "err " + classify_exc(e)
                        inp = {"what": "evaluate_parameters kind", "cm": cm, "obs": obs, "func": func, "blocks": enc_blocks(blocks)}
                        res.case(inp, nontrivial=True, tags=["costcfg-eval"])
                        if impl != model:
                            res.disagree(inp, model, impl, "which quantity evaluate_parameters returns / its exception", dict(w))

    # ---------------------------------------------------------------------------------
    def _random_witness(self, rng, allow_func=False, allow_p0=False, maxblocks=5):
        nq = rng.randint(1, 3)
        L = rng.randint(1, 3)
        kinds = ["h", "h", "u", "n", "p", "p"] + (["f"] if allow_func else [])
        blocks = []
        for _ in range(rng.randint(1, maxblocks)):
            k = rng.choice(kinds)
            nt = rng.randint(0 if allow_p0 else 1, 3) if k == "p" else 0
            blocks.append({"kind": k, "nterms": nt, "initial": rng.random() < 0.3})
        w = {"nq": nq, "layers": L, "blocks": blocks, "seed": rng.randint(0, 10 ** 6)}
        return w

    @staticmethod
    def in_class(w):
        """the property's class: Hamiltonian blocks, ParameterizedHamiltonian with >= 1 term, fixed unitaries, native gates"""
        if w.get("cm", "o") != "o" or not w.get("obs", 1):
            return False
        return all(b["kind"] in "hun" or (b["kind"] == "p" and b["nterms"] >= 1) for b in w["blocks"])

    def oracle_replay(self, ctx, w):
        """the property on the real code: shape and values of compute_jac against central differences"""
        if not self.in_class(w):
            return False, "outside the property's class (function block, 0-term Hamiltonian, or not observable cost mode)"
        if w.get("history"):
            return self._replay_history(w)
        if w.get("optimize"):
            return self._replay_optimize(w)
        v = build_vqa(w)
        nfree = v.get_free_parameters_num()
        angles = w.get("angles")
        if angles is None:
            rng = np.random.default_rng([int(w.get("seed", 0)), 7])
            angles = list(rng.uniform(-2 * np.pi, 2 * np.pi, size=nfree))
        if len(angles) != nfree:
            return False, "parameter vector of the wrong length (not an input of the property)"
        idx = w.get("indices")
        want = list(range(nfree)) if idx is None else sorted({i for i in idx if 0 <= i < nfree})
        try:
            arg = make_container(w["container"], angles) if w.get("container") else list(angles)
            jac = v.compute_jac(arg, idx) if idx is not None else v.compute_jac(arg)
        except Exception as e:
            return True, f"compute_jac raised {type(e).__name__}: {e}"
        jac = np.atleast_1d(np.asarray(jac, dtype=float))
        if jac.shape != (len(want),):
            return True, (f"jacobian has {jac.shape[0] if jac.ndim == 1 else jac.shape} entries for {len(want)} requested free "
                          f"parameters (of {nfree})")
        fd = fd_gradient(v, list(angles), want)
        err = np.abs(jac - fd)
        tol = 1e-6 + 1e-5 * np.abs(fd)
        if np.any(err > tol):
            j = int(np.argmax(err - tol))
            how = f" (vector {[float(a) for a in angles]} passed as {w['container']})" if w.get("container") else ""
            return True, f"entry {j} (parameter {want[j]}): analytic {jac[j]:.9g} vs finite difference {fd[j]:.9g}{how}"
        return False, f"{len(want)} entries agree with central differences"

    def _replay_optimize(self, w):
        """the jacobian callable handed to scipy by optimize_parameters(use_jac=True) against central differences of the cost
        callable handed over with it, for every minimisation (layer)"""
        o = w["optimize"]
        if len(o["initial"]) != nfree_of(w):
            return False, "initial vector of the wrong length (not an input of the property)"
        try:
            rec = optimizer_handoffs(w, o["initial"], o.get("layer_by_layer", True))
        except Exception as e:
            return True, f"optimize_parameters(use_jac=True) raised {type(e).__name__}: {e}"
        for r in rec:
            if r["got"] is None or r["got"].shape != r["fd"].shape:
                return True, (f"minimisation {r['layer']}: jacobian of shape {None if r['got'] is None else r['got'].shape} handed to the "
                              f"optimiser for {len(r['x'])} free parameters")
            err = np.abs(r["got"] - r["fd"])
            tol = 1e-6 + 1e-5 * np.abs(r["fd"])
            if np.any(err > tol):
                j = int(np.argmax(err - tol))
                return True, (f"optimize_parameters(use_jac=True, layer_by_layer={o.get('layer_by_layer', True)}), minimisation "
                              f"{r['layer']}: entry {j} of the jacobian handed to the optimiser {r['got'][j]:.9g} vs finite difference of "
                              f"the cost handed to it {r['fd'][j]:.9g} (fixed {r['fixed']}, free {r['x']})")
        return False, f"{len(rec)} jacobians handed to the optimiser agree with central differences of its cost"

    def _replay_history(self, w):
        """one VQA object, one container updated in place, public attributes assigned between calls: every compute_jac of the
        history against central differences of the cost at the CURRENT vector and configuration (differences taken on a fresh
        object built with the current configuration, with fresh vectors)"""
        hist = w["history"]
        if len(hist["start"]) != nfree_of(w):
            return False, "parameter vector of the wrong length (not an input of the property)"
        njac = 0
        for t, st, cur, out, cw, verdicts, names in run_history(w, hist):
            if not self.in_class(cw):
                continue                                   # e.g. cost_method assigned to STATE: outside the property
            nfree = nfree_of(cw)
            cfgs = f", after assigning {st['cfg']}" if st.get("cfg") else ""
            if st.get("refused"):
                cfgs += f", after the refused operations {[(op['op'], op.get('like')) for op in st['refused']]}"
            if st["op"] != "jac":
                if isinstance(out, Exception):
                    return True, f"history step {t} ({st['op']}{cfgs}) raised {type(out).__name__}: {out}"
                continue
            if isinstance(out, Exception):
                return True, f"history step {t}{cfgs}: compute_jac raised {type(out).__name__}: {out}"
            idx = st.get("idx")
            want = list(range(nfree)) if idx is None else sorted({i for i in idx if 0 <= i < nfree})
            if out.shape != (len(want),):
                return True, (f"history step {t}{cfgs}: jacobian has {out.shape[0]} entries for {len(want)} requested free parameters "
                              f"{want if idx is not None else ''} (of {nfree}; layers={cw['layers']}, blocks={enc_blocks(cw['blocks'])})")
            fd = fd_gradient(build_vqa(cw), list(cur), want)
            err = np.abs(out - fd)
            tol = 1e-6 + 1e-5 * np.abs(fd)
            njac += 1
            if np.any(err > tol):
                j = int(np.argmax(err - tol))
                return True, (f"history step {t} ({hist['container']} reused{cfgs}): entry {j} (parameter {want[j]}): analytic "
                              f"{out[j]:.9g} vs finite difference {fd[j]:.9g} at the current vector {cur}")
        return False, f"{njac} jacobians of the history agree with central differences at their current vectors"

    def _history_witness(self, rng):
        for _ in range(20):
            w = pauli_witness(rng, rng.randint(0, 10 ** 4)) if rng.random() < 0.3 else self._random_witness(rng, maxblocks=3)
            if nfree_of(w):
                if rng.random() < 0.25:
                    w = dict(w, blocks=[dict(b) for b in w["blocks"]])
                    w["blocks"][rng.randrange(len(w["blocks"]))]["name"] = "U" + str(len(w["blocks"]))
                    return dict(w, history=_make_refused_history(rng, w, [round(rng.uniform(-3.0, 3.0), 4) for _ in range(nfree_of(w))]))
                return dict(w, history=make_history(rng, nfree_of(w), w=w))
        return None

    def _commuting_sample(self, rng, count):
        ws = list(commuting_witnesses())
        return ws if count >= len(ws) else rng.sample(ws, count)

    def _oracle_witness(self, rng):
        if rng.random() < 0.3:
            w = pauli_witness(rng, rng.randint(0, 10 ** 4))
        else:
            w = self._random_witness(rng, maxblocks=4)
        nfree = nfree_of(w)
        if nfree and rng.random() < 0.4:
            w["indices"] = sorted(rng.sample(range(nfree), rng.randint(0, nfree)))
        if nfree and rng.random() < 0.5:      # zeros / equal / pi-multiples / 1e-12 apart instead of a generic vector
            vecs = list(special_angles(rng, nfree, 12))
            w["angles"] = [float(a) for a in rng.choice(vecs)]
        return w

    def _container_witnesses(self, rng, count):
        """parameter vectors with integer / half-integer values passed as lists/tuples of ints, integer and low-precision
        ndarrays, numpy scalars"""
        n = 0
        while n < count:
            w = pauli_witness(rng, rng.randint(0, 10 ** 4)) if n % 3 == 0 else self._random_witness(rng, maxblocks=3)
            nfree = nfree_of(w)
            n += 1
            if nfree == 0:
                continue
            kind = CONTAINER_KINDS[n % len(CONTAINER_KINDS)]
            vals = container_values(rng, kind, nfree, ["random", "ones", "halves", "arange"][n % 4])
            yield dict(w, angles=[float(a) for a in vals], container=kind)

    def _special_witnesses(self, rng, count):
        """systematic: Pauli-string multi-parameter blocks at the origin and at vectors with vanishing coordinates"""
        for n in range(count):
            w = pauli_witness(rng, n)
            for a in special_angles(rng, nfree_of(w), 6):
                yield dict(w, angles=[float(x) for x in a])

    def oracle_search(self, ctx, budget_s):
        t0 = time.time()
        n = 0
        for w in self._special_witnesses(ctx.rng, 12):
            f, d = self.oracle_replay(ctx, w)
            if f:
                yield w, d
            if time.time() - t0 > budget_s / 4:
                break
        for w in layerwise_witnesses(ctx.rng, 12):
            f, d = self.oracle_replay(ctx, w)
            if f:
                yield w, d
            if time.time() - t0 > budget_s / 5:
                break
        for w in self._container_witnesses(ctx.rng, 26):
            f, d = self.oracle_replay(ctx, w)
            if f:
                yield w, d
            if time.time() - t0 > budget_s / 3:
                break
        for w in self._commuting_sample(ctx.rng, 60):
            f, d = self.oracle_replay(ctx, w)
            if f:
                yield w, d
            if time.time() - t0 > budget_s / 2:
                break
        for _ in range(40):
            w = self._history_witness(ctx.rng)
            if w is not None:
                f, d = self.oracle_replay(ctx, w)
                if f:
                    yield w, d
            if time.time() - t0 > 3 * budget_s / 4:
                break
        for blocks in structures(2):
            for L in (1, 2):
                n += 1
                w = {"nq": 1 + n % 2, "layers": L, "blocks": blocks, "seed": n}
                f, d = self.oracle_replay(ctx, w)
                if f:
                    yield w, d
                if time.time() - t0 > budget_s:
                    return
        while time.time() - t0 < budget_s:
            w = self._oracle_witness(ctx.rng)
            f, d = self.oracle_replay(ctx, w)
            if f:
                yield w, d

    def oracle_always(self, ctx):
        for w in layerwise_witnesses(ctx.rng, 12 if ctx.thorough else 4):
            f, d = self.oracle_replay(ctx, w)
            if f:
                yield w, d
        for w in self._container_witnesses(ctx.rng, 39 if ctx.thorough else 13):
            f, d = self.oracle_replay(ctx, w)
            if f:
                yield w, d
        for w in self._commuting_sample(ctx.rng, 40 if ctx.thorough else 10):
            f, d = self.oracle_replay(ctx, w)
            if f:
                yield w, d
        for w in self._special_witnesses(ctx.rng, 12 if ctx.thorough else 4):
            f, d = self.oracle_replay(ctx, w)
            if f:
                yield w, d
        for _ in range(60 if ctx.thorough else 25):
            w = self._oracle_witness(ctx.rng)
            f, d = self.oracle_replay(ctx, w)
            if f:
                yield w, d
        for _ in range(30 if ctx.thorough else 10):
            w = self._history_witness(ctx.rng)
            if w is not None:
                f, d = self.oracle_replay(ctx, w)
                if f:
                    yield w, d


CHECK = C19()
