"""Translator for C05 / C11: `qutip_qip/compiler/scheduler.py` -> lean/QipVerif/Gen/SchedRule.lean.

Read with `ast` (never imported, never matched by regular expressions):

* the module-level literal `_SELF_COMMUTING_GATES`           -> `selfCommuting : Option (List String)`, `inSet`
* the body of `Scheduler.commutation_rules`                   -> `commutationRules : Ins -> Ins -> Bool`
  (a small statement language: assignments of the two instruction variables, the `sorted(..., key=name)`
  exchange, `if`/`elif`/`else` chains, `commute = True/False`, `return`; conditions built from `==`, `!=`,
  `in (literal tuple)`, `not in _SELF_COMMUTING_GATES`, `and`, `or`, `not` and the truth value of
  `.controls` / `.targets`).  Every statement after an `if` is duplicated into both branches, so the Lean term
  is one nested `if … then … else …` that returns exactly what the Python function returns.
* whether `_add_dependency_among_commuting_gates` records conflict edges from the already executed
  instructions (parameter `executed` + a loop over it in the approval branch)                -> `conflictFix : Bool`

Anything outside this language raises TranslatorError (the check then reports the translator as broken and looks
for a failing input); the Lean theorems (`Lemmas/SchedRuleGen.lean`, `Props/C05.lean`, `Props/C11.lean`) are
about the generated definitions, so an edit of the rule or of the set changes what they state."""
import ast, os

from vlib.core import TranslatorError
from vlib import paths

ATTRS = {"name": "str", "targets": "list", "controls": "list"}
SET_NAME = "_SELF_COMMUTING_GATES"


def _src_path():
    return os.path.join(paths.REPO, "src", "qutip_qip", "compiler", "scheduler.py")


def lean_str(s):
    if not all(32 <= ord(ch) < 127 and ch not in '"\\' for ch in s):
        raise TranslatorError(f"string literal {s!r} is not plain printable ASCII")
    return '"' + s + '"'


def read_set(tree):
    """the literal `_SELF_COMMUTING_GATES` in source order (None: the module has no such name)"""
    found = None
    for node in tree.body:
        if isinstance(node, ast.Assign) and any(isinstance(t, ast.Name) and t.id == SET_NAME for t in node.targets):
            v = node.value
            if isinstance(v, ast.Call) and isinstance(v.func, ast.Name) and v.func.id in ("frozenset", "set") \
                    and len(v.args) == 1 and not v.keywords:
                v = v.args[0]
            if isinstance(v, (ast.List, ast.Tuple, ast.Set)) and all(
                    isinstance(e, ast.Constant) and isinstance(e.value, str) for e in v.elts):
                if found is not None:
                    raise TranslatorError(f"{SET_NAME} is assigned twice")
                found = [e.value for e in v.elts]
            else:
                raise TranslatorError(f"{SET_NAME} of scheduler.py is not a literal set of strings")
    for node in ast.walk(tree):          # the set must not be modified anywhere else
        if isinstance(node, (ast.AugAssign, ast.AnnAssign)) and isinstance(node.target, ast.Name) and node.target.id == SET_NAME:
            raise TranslatorError(f"{SET_NAME} is modified after its definition")
        if isinstance(node, ast.Global) and SET_NAME in node.names:
            raise TranslatorError(f"{SET_NAME} is declared global in a function")
    return found


def named_ident(py_name):
    return "namedSet" + "".join(ch if ch.isalnum() else "_" for ch in py_name)


def read_named_sets(tree):
    """every other module-level `NAME = frozenset([...])` / set / tuple / list literal of strings -> {name: [strings]}"""
    out = {}
    for node in tree.body:
        if isinstance(node, ast.Assign) and len(node.targets) == 1 and isinstance(node.targets[0], ast.Name) \
                and node.targets[0].id != SET_NAME:
            v = node.value
            if isinstance(v, ast.Call) and isinstance(v.func, ast.Name) and v.func.id in ("frozenset", "set", "tuple") \
                    and len(v.args) == 1 and not v.keywords:
                v = v.args[0]
            if isinstance(v, (ast.List, ast.Tuple, ast.Set)) and v.elts and all(
                    isinstance(e, ast.Constant) and isinstance(e.value, str) for e in v.elts):
                out[node.targets[0].id] = [e.value for e in v.elts]
    return out


class RuleTr:
    """translation of the body of `commutation_rules(self, ind1, ind2, instructions)`"""

    def __init__(self, fn, has_set, named_sets=None):
        self.named = named_sets or {}
        self.used_named = set()
        self.has_set = has_set
        self.uses_set = False
        self.fresh = 0
        args = [a.arg for a in fn.args.args]
        if len(args) != 4 or fn.args.vararg or fn.args.kwarg or fn.args.kwonlyargs or fn.args.defaults:
            raise TranslatorError("commutation_rules does not have the parameters (self, ind1, ind2, instructions)")
        self.ind = {args[1]: "a", args[2]: "b"}
        self.lst = args[3]

    # ---- values and conditions -------------------------------------------------------
    def val(self, e, env):
        """-> (lean term, type)"""
        if isinstance(e, ast.Attribute) and isinstance(e.value, ast.Name) and e.value.id in env and e.attr in ATTRS:
            v = env[e.value.id]
            if v[0] != "ins":
                raise TranslatorError(f"attribute of a non-instruction variable {e.value.id}")
            return f"{v[1]}.{e.attr}", ATTRS[e.attr]
        if isinstance(e, ast.Constant) and isinstance(e.value, str):
            return lean_str(e.value), "str"
        if isinstance(e, ast.Constant) and type(e.value) is int and e.value >= 0:
            return str(e.value), "nat"
        if isinstance(e, ast.Call) and isinstance(e.func, ast.Name) and e.func.id == "len" and len(e.args) == 1 and not e.keywords:
            t, ty = self.val(e.args[0], env)
            if ty != "list":
                raise TranslatorError("len() of something that is not a qubit list")
            return f"{t}.length", "nat"
        raise TranslatorError("unsupported value expression: " + ast.dump(e)[:120])

    def cond(self, e, env):
        if isinstance(e, ast.Constant) and isinstance(e.value, bool):
            return "true" if e.value else "false"
        if isinstance(e, ast.Name) and e.id in env and env[e.id][0] == "bool":
            return env[e.id][1]
        if isinstance(e, ast.BoolOp):
            op = " && " if isinstance(e.op, ast.And) else " || "
            return "(" + op.join(self.cond(v, env) for v in e.values) + ")"
        if isinstance(e, ast.UnaryOp) and isinstance(e.op, ast.Not):
            return "(!" + self.cond(e.operand, env) + ")"
        if isinstance(e, ast.Attribute):
            t, ty = self.val(e, env)
            if ty != "list":
                raise TranslatorError("truth value of a name string is not supported")
            return f"(!{t}.isEmpty)"          # `None` and `[]` are both falsy; the model writes `[]` for `None`
        if isinstance(e, ast.Compare) and len(e.ops) == 1:
            op, lhs, rhs = e.ops[0], e.left, e.comparators[0]
            if isinstance(op, (ast.Eq, ast.NotEq)):
                (l, lt), (r, rt) = self.val(lhs, env), self.val(rhs, env)
                if lt != rt:
                    raise TranslatorError("comparison of values of different kinds")
                return f"({l} {'==' if isinstance(op, ast.Eq) else '!='} {r})"
            if isinstance(op, (ast.Gt, ast.GtE, ast.Lt, ast.LtE)):
                (l, lt), (r, rt) = self.val(lhs, env), self.val(rhs, env)
                if lt != "nat" or rt != "nat":
                    raise TranslatorError("order comparison of values that are not lengths / numbers")
                sym = {ast.Gt: ">", ast.GtE: "≥", ast.Lt: "<", ast.LtE: "≤"}[type(op)]
                return f"(decide ({l} {sym} {r}))"
            if isinstance(op, (ast.In, ast.NotIn)):
                l, lt = self.val(lhs, env)
                if lt != "str":
                    raise TranslatorError("membership test of a qubit list")
                if isinstance(rhs, ast.Name) and rhs.id == SET_NAME:
                    if not self.has_set:
                        raise TranslatorError(f"commutation_rules uses {SET_NAME}, which the module does not define")
                    self.uses_set = True
                    c = f"(inSet {l})"
                elif isinstance(rhs, ast.Name) and rhs.id in self.named:      # another module-level literal set: `namedSet…`
                    self.used_named.add(rhs.id)
                    c = f"({named_ident(rhs.id)}.contains {l})"
                elif isinstance(rhs, (ast.Tuple, ast.List, ast.Set)) and all(
                        isinstance(x, ast.Constant) and isinstance(x.value, str) for x in rhs.elts):
                    c = "([" + ", ".join(lean_str(x.value) for x in rhs.elts) + f"].contains {l})"
                else:
                    raise TranslatorError("membership in something that is not a literal tuple of names")
                return c if isinstance(op, ast.In) else f"(!{c})"
        raise TranslatorError("unsupported condition: " + ast.dump(e)[:160])

    # ---- statements ------------------------------------------------------------------
    def block(self, stmts, env, ind):
        """Lean term (list of lines) of `stmts` executed in `env`; falls off the end -> error"""
        pad = "  " * ind
        if not stmts:
            raise TranslatorError("a path through commutation_rules ends without `return`")
        s, rest = stmts[0], stmts[1:]
        if isinstance(s, ast.Expr) and isinstance(s.value, ast.Constant) and isinstance(s.value.value, str):
            return self.block(rest, env, ind)                      # docstring
        if isinstance(s, ast.Pass):
            return self.block(rest, env, ind)
        if isinstance(s, ast.Return):
            if s.value is None:
                raise TranslatorError("bare `return` (None) in commutation_rules")
            return [pad + self.cond(s.value, env)]
        if isinstance(s, ast.If):
            c = self.cond(s.test, env)
            return ([pad + f"if {c} then"] + self.block(list(s.body) + rest, dict(env), ind + 1)
                    + [pad + "else"] + self.block(list(s.orelse) + rest, dict(env), ind + 1))
        if isinstance(s, ast.Assign) and len(s.targets) == 1:
            t, v = s.targets[0], s.value
            # instruction1 = instructions[ind1]
            if isinstance(t, ast.Name) and isinstance(v, ast.Subscript) and isinstance(v.value, ast.Name) \
                    and v.value.id == self.lst and isinstance(v.slice, ast.Name) and v.slice.id in self.ind:
                env = dict(env)
                env[t.id] = ("ins", self.ind[v.slice.id])
                return self.block(rest, env, ind)
            # commute = True / False / condition
            if isinstance(t, ast.Name) and t.id not in self.ind and t.id != self.lst and \
                    not (t.id in env and env[t.id][0] == "ins"):
                env = dict(env)
                env[t.id] = ("bool", self.cond(v, env))
                return self.block(rest, env, ind)
            # i1, i2 = sorted([e1, e2], key=lambda i: i.name)
            if isinstance(t, ast.Tuple) and len(t.elts) == 2 and all(isinstance(x, ast.Name) for x in t.elts) \
                    and isinstance(v, ast.Call) and isinstance(v.func, ast.Name) and v.func.id == "sorted" \
                    and len(v.args) == 1 and isinstance(v.args[0], ast.List) and len(v.args[0].elts) == 2 \
                    and len(v.keywords) == 1 and v.keywords[0].arg == "key":
                k = v.keywords[0].value
                ok = (isinstance(k, ast.Lambda) and len(k.args.args) == 1 and isinstance(k.body, ast.Attribute)
                      and isinstance(k.body.value, ast.Name) and k.body.value.id == k.args.args[0].arg
                      and k.body.attr == "name")
                es = []
                for x in v.args[0].elts:
                    if not (isinstance(x, ast.Name) and x.id in env and env[x.id][0] == "ins"):
                        ok = False
                    else:
                        es.append(env[x.id][1])
                if not ok:
                    raise TranslatorError("unsupported `sorted` call in commutation_rules")
                self.fresh += 1
                x, y = f"x{self.fresh}", f"y{self.fresh}"
                # Python's sort is stable: the pair is exchanged iff name(e2) < name(e1)
                lines = [pad + f"let {x} := if {es[1]}.name < {es[0]}.name then {es[1]} else {es[0]}",
                         pad + f"let {y} := if {es[1]}.name < {es[0]}.name then {es[0]} else {es[1]}"]
                env = dict(env)
                env[t.elts[0].id] = ("ins", x)
                env[t.elts[1].id] = ("ins", y)
                return lines + self.block(rest, env, ind)
        raise TranslatorError("unsupported statement in commutation_rules: " + ast.dump(s)[:160])


def same_name_guards(tree):
    """The guards of the same-name part of `commutation_rules`: the statements `if <cond>: return False` at the top level of
    the function body (after the different-name block) before the decision.  Each must say something about ONE
    instruction (`i1.name not in _SELF_COMMUTING_GATES` -- the names are equal there) or the same thing about both
    (`c(i1) or c(i2)`).  -> list of (per-instruction condition as ast, variable name, descriptor for the harness):
      {"kind": "set"} | {"kind": "len", "k", "op"} | {"kind": "lensym", "k", "op": ">" | "!=", "names": [...]}
      | {"kind": "ctlsym", "names": [...]}   (a gate of `names` given with control qubits)
    `flagged a` of the generated file is the conjunction of the negated conditions at `a`."""
    fn = find_method(tree, "Scheduler", "commutation_rules")
    named = read_named_sets(tree)
    out = []

    def one(c):
        """descriptor of a per-instruction condition -> (variable, descriptor) or None"""
        def lencmp(v):
            if (isinstance(v, ast.Compare) and len(v.ops) == 1 and isinstance(v.ops[0], (ast.Gt, ast.NotEq))
                    and isinstance(v.left, ast.Call) and isinstance(v.left.func, ast.Name) and v.left.func.id == "len"
                    and len(v.left.args) == 1 and isinstance(v.left.args[0], ast.Attribute) and v.left.args[0].attr == "targets"
                    and isinstance(v.left.args[0].value, ast.Name)
                    and isinstance(v.comparators[0], ast.Constant) and type(v.comparators[0].value) is int):
                return v.left.args[0].value.id, v.comparators[0].value, (">" if isinstance(v.ops[0], ast.Gt) else "!=")
            return None
        if isinstance(c, ast.Compare) and len(c.ops) == 1 and isinstance(c.ops[0], ast.NotIn) and isinstance(c.left, ast.Attribute) \
                and c.left.attr == "name" and isinstance(c.left.value, ast.Name) and isinstance(c.comparators[0], ast.Name) \
                and c.comparators[0].id == SET_NAME:
            return c.left.value.id, {"kind": "set"}
        lc = lencmp(c)
        if lc:
            return lc[0], {"kind": "len", "k": lc[1], "op": lc[2]}
        if isinstance(c, ast.BoolOp) and isinstance(c.op, ast.And) and len(c.values) == 2:
            lc = lencmp(c.values[0])
            n = c.values[1]
            if lc and isinstance(n, ast.Compare) and len(n.ops) == 1 and isinstance(n.ops[0], ast.NotIn) \
                    and isinstance(n.left, ast.Attribute) and n.left.attr == "name" and isinstance(n.left.value, ast.Name) \
                    and n.left.value.id == lc[0] and isinstance(n.comparators[0], ast.Name) and n.comparators[0].id in named:
                return lc[0], {"kind": "lensym", "k": lc[1], "op": lc[2], "names": named[n.comparators[0].id]}
            # `i.controls and i.name in _EXCHANGE_SYMMETRIC_GATES`
            k = c.values[0]
            if isinstance(k, ast.Attribute) and k.attr == "controls" and isinstance(k.value, ast.Name) \
                    and isinstance(n, ast.Compare) and len(n.ops) == 1 and isinstance(n.ops[0], ast.In) \
                    and isinstance(n.left, ast.Attribute) and n.left.attr == "name" and isinstance(n.left.value, ast.Name) \
                    and n.left.value.id == k.value.id and isinstance(n.comparators[0], ast.Name) and n.comparators[0].id in named:
                return k.value.id, {"kind": "ctlsym", "names": named[n.comparators[0].id]}
        return None

    started = False
    for st in fn.body:
        is_guard = (isinstance(st, ast.If) and not st.orelse and len(st.body) == 1 and isinstance(st.body[0], ast.Return)
                    and isinstance(st.body[0].value, ast.Constant) and st.body[0].value.value is False)
        if not is_guard:
            if started:
                break
            continue
        started = True
        c = st.test
        d = one(c)
        if d is not None:
            if d[1]["kind"] != "set":
                raise TranslatorError("a guard of commutation_rules looks at one of the two instructions only")
            out.append((c, d[0], d[1]))
            continue
        if isinstance(c, ast.BoolOp) and isinstance(c.op, ast.Or) and len(c.values) == 2:
            d1, d2 = one(c.values[0]), one(c.values[1])
            if d1 and d2 and d1[1] == d2[1] and d1[0] != d2[0]:
                out.append((c.values[0], d1[0], d1[1]))
                continue
        raise TranslatorError("a guard `if …: return False` of the same-name part of commutation_rules is not recognised")
    return out


def guard_info(tree):
    try:
        return [g[2] for g in same_name_guards(tree)]
    except TranslatorError:
        return None


def alias_ok(tree):
    """`InstructionsGraph.__init__` copies every instruction separately (a list comprehension / loop of deepcopy), so that
    the same Instruction object listed several times becomes several nodes; `deepcopy(instructions)` of the whole list keeps
    the aliasing (the nodes then share their predecessor / successor sets and distances)"""
    fn = find_method(tree, "InstructionsGraph", "__init__")
    for node in ast.walk(fn):
        if isinstance(node, ast.Assign) and isinstance(node.value, ast.Call) and isinstance(node.value.func, ast.Name) \
                and node.value.func.id == "deepcopy" and len(node.value.args) == 1 and isinstance(node.value.args[0], ast.Name) \
                and node.value.args[0].id == "instructions":
            return False
    return True


def repeat_cycles_ok(tree):
    """the `repeat_num > 0` loop of `Scheduler.schedule` measures the length of a returned cycles LIST separately
    (`if return_cycles_list: … len(…)`); without it `max()` of a list of lists is compared with an int (TypeError)"""
    fn = find_method(tree, "Scheduler", "schedule")
    for node in ast.walk(fn):
        if isinstance(node, ast.For) and isinstance(node.iter, ast.Call) and isinstance(node.iter.func, ast.Name) \
                and node.iter.func.id == "range" and any(isinstance(a, ast.Name) and a.id == "repeat_num" for a in node.iter.args):
            for sub in ast.walk(node):
                if isinstance(sub, ast.If) and isinstance(sub.test, ast.Name) and sub.test.id == "return_cycles_list":
                    return True
            return False
    raise TranslatorError("the repeat_num loop of Scheduler.schedule is not recognised")


def find_method(tree, cls, name):
    for node in tree.body:
        if isinstance(node, ast.ClassDef) and node.name == cls:
            for f in node.body:
                if isinstance(f, ast.FunctionDef) and f.name == name:
                    return f
    raise TranslatorError(f"{cls}.{name} not found in scheduler.py")


def conflict_fix(tree, strict=True):
    """True iff `_add_dependency_among_commuting_gates` has a parameter `executed` and, inside the branch that approves
    a candidate (`if approval:`), a `for … in executed` loop adding a successor/predecessor edge."""
    fn = find_method(tree, "InstructionsGraph", "_add_dependency_among_commuting_gates")
    if not any(a.arg == "executed" for a in fn.args.args + fn.args.kwonlyargs):
        return False
    for node in ast.walk(fn):
        if isinstance(node, ast.If) and isinstance(node.test, ast.Name) and node.test.id == "approval":
            for sub in node.body:
                if isinstance(sub, ast.For) and isinstance(sub.iter, ast.Name) and sub.iter.id == "executed":
                    adds = [c for c in ast.walk(sub) if isinstance(c, ast.Call) and isinstance(c.func, ast.Attribute)
                            and c.func.attr == "add"]
                    if len(adds) >= 2:
                        return True
    if not strict:          # the oracles only ask whether the tree claims the repair
        return True
    raise TranslatorError("_add_dependency_among_commuting_gates takes `executed` but the loop recording the edges "
                          "is not recognised")


def executed_passed(tree):
    """the call in find_topological_order passes the executed instructions (4th argument / keyword)"""
    fn = find_method(tree, "InstructionsGraph", "find_topological_order")
    for c in ast.walk(fn):
        if isinstance(c, ast.Call) and isinstance(c.func, ast.Attribute) and \
                c.func.attr == "_add_dependency_among_commuting_gates":
            return len(c.args) >= 4 or any(k.arg == "executed" for k in c.keywords)
    raise TranslatorError("find_topological_order does not call _add_dependency_among_commuting_gates")


def method_tests(tree):
    """The three places of `Scheduler.schedule` that look at `self.method`, in source order: reversal of the dependency
    graph before the passes, reversal of the returned cycles list, reversal of the graph before the start times are read.
    Each must be `if self.method == "<literal>": <one call>`; `self.method` must not occur anywhere else in the class
    except `self.method = method` in `__init__`.  -> the three literals"""
    cls = next((n for n in tree.body if isinstance(n, ast.ClassDef) and n.name == "Scheduler"), None)
    if cls is None:
        raise TranslatorError("class Scheduler not found")

    def is_method(e):
        return isinstance(e, ast.Attribute) and e.attr == "method" and isinstance(e.value, ast.Name) and e.value.id == "self"
    sched = find_method(tree, "Scheduler", "schedule")
    sites, used = [], set()
    for node in ast.walk(sched):
        if isinstance(node, ast.If) and isinstance(node.test, ast.Compare) and is_method(node.test.left):
            t = node.test
            if not (len(t.ops) == 1 and isinstance(t.ops[0], ast.Eq) and isinstance(t.comparators[0], ast.Constant)
                    and isinstance(t.comparators[0].value, str) and not node.orelse and len(node.body) == 1
                    and isinstance(node.body[0], ast.Expr) and isinstance(node.body[0].value, ast.Call)
                    and isinstance(node.body[0].value.func, ast.Attribute)):
                raise TranslatorError("a test of self.method in Scheduler.schedule is not `if self.method == \"…\": <call>`")
            sites.append((node.lineno, t.comparators[0].value, node.body[0].value.func.attr))
            used.add(id(t.left))
    sites.sort()
    if [x[2] for x in sites] != ["reverse_graph", "reverse", "reverse_graph"]:
        raise TranslatorError("Scheduler.schedule does not test self.method at exactly the three expected places "
                              "(graph reversal, cycles reversal, graph reversal): " + str([x[2] for x in sites]))
    for fn in cls.body:
        if not isinstance(fn, ast.FunctionDef):
            continue
        for node in ast.walk(fn):
            if is_method(node) and id(node) not in used:
                ok = fn.name == "__init__" and isinstance(node.ctx, ast.Store)
                if not ok:
                    raise TranslatorError(f"self.method is used in Scheduler.{fn.name} outside the three recognised tests")
    init = find_method(tree, "Scheduler", "__init__")
    stores = [n for n in ast.walk(init) if isinstance(n, ast.Assign) and any(is_method(t) for t in n.targets)]
    if len(stores) != 1 or not (isinstance(stores[0].value, ast.Name) and stores[0].value.id == "method"):
        raise TranslatorError("Scheduler.__init__ does not store its argument `method` unchanged")
    return [x[1] for x in sites]


def constraint_combination(tree):
    """`Scheduler.apply_constraint`: `result = []; for f in self.constraint_functions: result.append(f(ind1, ind2, instructions));
    return all(result)`  ->  "all"   (the same with `any` -> "any"); anything else is refused.  Also checks that `__init__`
    keeps a given list and uses `[qubit_constraint]` for `None`."""
    fn = find_method(tree, "Scheduler", "apply_constraint")
    args = [a.arg for a in fn.args.args]
    body = [b for b in fn.body if not (isinstance(b, ast.Expr) and isinstance(b.value, ast.Constant))]
    try:
        a, loop, ret = body
        acc = a.targets[0].id
        assert isinstance(a, ast.Assign) and isinstance(a.value, ast.List) and not a.value.elts
        assert isinstance(loop, ast.For) and isinstance(loop.target, ast.Name) and not loop.orelse
        it = loop.iter
        assert isinstance(it, ast.Attribute) and it.attr == "constraint_functions" and it.value.id == "self"
        (st,) = loop.body
        call = st.value
        assert isinstance(st, ast.Expr) and call.func.attr == "append" and call.func.value.id == acc
        (inner,) = call.args
        assert isinstance(inner, ast.Call) and inner.func.id == loop.target.id and not inner.keywords
        assert [x.id for x in inner.args] == args[1:4]
        assert isinstance(ret, ast.Return) and isinstance(ret.value, ast.Call) and ret.value.func.id in ("all", "any")
        assert len(ret.value.args) == 1 and ret.value.args[0].id == acc
        comb = ret.value.func.id
    except (AssertionError, AttributeError, ValueError, IndexError, TypeError):
        raise TranslatorError("Scheduler.apply_constraint is not `collect the verdict of every constraint function; return all(...)`")
    init = find_method(tree, "Scheduler", "__init__")
    ok = False
    for node in ast.walk(init):
        if isinstance(node, ast.If) and isinstance(node.test, ast.Compare) and isinstance(node.test.left, ast.Name) \
                and node.test.left.id == "constraint_functions" and isinstance(node.test.ops[0], ast.Is) \
                and isinstance(node.test.comparators[0], ast.Constant) and node.test.comparators[0].value is None:
            try:
                (b,), (e,) = node.body, node.orelse
                ok = (isinstance(b.value, ast.List) and [x.id for x in b.value.elts] == ["qubit_constraint"]
                      and b.targets[0].attr == "constraint_functions" and e.targets[0].attr == "constraint_functions"
                      and isinstance(e.value, ast.Name) and e.value.id == "constraint_functions")
            except (AttributeError, ValueError):
                ok = False
    if not ok:
        raise TranslatorError("Scheduler.__init__ does not set constraint_functions to the argument / [qubit_constraint] for None")
    return comb


HEADER = '''import QipVerif.Model.Sched
/-!
GENERATED by py/translate/sched.py from `qutip_qip/compiler/scheduler.py` of the tree under test — do not edit.

* `selfCommuting`     the literal `_SELF_COMMUTING_GATES` (`none`: the module has no such set)
* `inSet`             `name in _SELF_COMMUTING_GATES`
* `flagged a`         the conjunction of the negated guards `if …: return False` of the same-name part at `a` (name in the
                      set; on a repaired tree: not a gate given by several non-interchangeable targets): the tree can declare
                      `a` commuting with a gate of its own name at all (the model's `Ins.sc`)
* `commutationRules`  the body of `Scheduler.commutation_rules` (`a = instructions[ind1]`, `b = instructions[ind2]`),
                      statement by statement; code after an `if` is repeated in both branches
* `conflictFix`       `_add_dependency_among_commuting_gates` also records an edge from every executed instruction
* `methodTests`       the string literals `self.method` is compared with at the three places of `Scheduler.schedule`
                      (graph reversal, reversal of the returned cycles, graph reversal before the start times)
* `alapAt k m`        the test at place `k` for the constructor argument `m` (`none`: not a `str`)
* `applyConstraint`   `Scheduler.apply_constraint` as a function of the list of verdicts of `constraint_functions`
-/
namespace QipVerif.Gen.SchedRule
open QipVerif.Sched

'''


def generate():
    """-> (lean source, info dict)"""
    path = _src_path()
    try:
        tree = ast.parse(open(path).read())
    except (OSError, SyntaxError) as e:
        raise TranslatorError(f"cannot parse {path}: {e}")
    names = read_set(tree)
    fn = find_method(tree, "Scheduler", "commutation_rules")
    tr = RuleTr(fn, names is not None, read_named_sets(tree))
    body = tr.block(list(fn.body), {}, 1)
    if names is not None and not tr.uses_set:
        raise TranslatorError(f"the module defines {SET_NAME} but commutation_rules does not consult it")
    fx = conflict_fix(tree)
    if fx and not executed_passed(tree):
        raise TranslatorError("find_topological_order does not pass the executed instructions")
    mtests = method_tests(tree)
    comb = constraint_combination(tree)
    guards = same_name_guards(tree)
    gtr = RuleTr(fn, names is not None, read_named_sets(tree))
    preds = [gtr.cond(c, {var: ("ins", "a")}) for c, var, _ in guards]
    out = [HEADER]
    if names is None:
        out.append("def selfCommuting : Option (List String) := none\n\n")
    else:
        out.append("def selfCommuting : Option (List String) := some\n  [" +
                   ",\n   ".join(", ".join(lean_str(n) for n in names[i:i + 8]) for i in range(0, len(names), 8)) + "]\n\n")
    out.append("def inSet (s : String) : Bool :=\n  match selfCommuting with\n  | none => true\n  | some l => l.contains s\n\n")
    for nm in sorted(tr.used_named | gtr.used_named):
        out.append(f"/-- the module-level literal `{nm}` -/\ndef {named_ident(nm)} : List String :=\n  ["
                   + ", ".join(lean_str(x) for x in tr.named[nm]) + "]\n\n")
    out.append("def flagged (a : Ins) : Bool :=\n  " + (" && ".join(f"(!{p_})" for p_ in preds) if preds else "true") + "\n\n")
    out.append("def commutationRules (a b : Ins) : Bool :=\n" + "\n".join(body) + "\n\n")
    out.append(f"def conflictFix : Bool := {'true' if fx else 'false'}\n\n")
    out.append("def methodTests : List String := [" + ", ".join(lean_str(t) for t in mtests) + "]\n\n")
    out.append("def alapAt (k : Nat) (m : Option String) : Bool := m == some (methodTests.getD k \"\")\n\n")
    out.append(f"def applyConstraint (vs : List Bool) : Bool := vs.{comb} id\n\n")
    out.append("end QipVerif.Gen.SchedRule\n")
    return "".join(out), {"names": names, "conflict_fix": fx, "guards": [g[2] for g in guards], "repeat_cycles_ok": repeat_cycles_ok(tree),
                              "alias_ok": alias_ok(tree)}


_INFO = {}


def _key():
    path = _src_path()
    return (path, os.path.getmtime(path))


def regenerate():
    """(re)write Gen/SchedRule.lean if its content changed -> list of regenerated file names"""
    src, inf = generate()
    _INFO.clear()
    _INFO[_key()] = inf
    dst = os.path.join(paths.LEAN, "QipVerif", "Gen", "SchedRule.lean")
    if os.path.exists(dst) and open(dst).read() == src:
        return []
    with open(dst, "w") as f:
        f.write(src)
    return ["SchedRule.lean"]


def info():
    """{"names": list or None, "conflict_fix": bool} of the tree under test (cached per file version).  Only the two
    literal facts are read here; a rule the translator does not recognise does not prevent reading them."""
    k = _key()
    if k not in _INFO:
        try:
            tree = ast.parse(open(k[0]).read())
        except (OSError, SyntaxError) as e:
            raise TranslatorError(f"cannot parse {k[0]}: {e}")
        _INFO.clear()
        _INFO[k] = {"names": read_set(tree), "conflict_fix": conflict_fix(tree, strict=False)}
        for key, f in (("guards", guard_info), ("repeat_cycles_ok", repeat_cycles_ok), ("alias_ok", alias_ok)):
            try:
                _INFO[k][key] = f(tree)
            except TranslatorError:
                _INFO[k][key] = None
    return dict(_INFO[k])
