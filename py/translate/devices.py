"""Regenerates lean/QipVerif/Gen/DeviceTables.lean from /repo's device files with `ast` (no import
of the package): for LinearSpinChain, CircularSpinChain, SCQubits, DispersiveCavityQED

* the literal list assigned to `self.native_gates` in the nearest `__init__` of the class's MRO,
* the setup string its `topology_map` passes to `to_chain_structure` (default of that function's
  signature if omitted; `raise NotImplementedError` = no topology map),
* the shape of `ModelProcessor.transpile`: route-then-resolve as at the pinned commit, or with the
  pre-decomposition of gates on more than two qubits (fixes/C13-1.patch); each with or without the
  leading size check `if qc.N > self.num_qubits: raise ValueError(...)` (fixes/C13-2.patch),
* the setup string `topology_map` uses for a circuit on fewer qubits than the processor
  (`if qc.N < self.num_qubits: return to_chain_structure(qc, <setup>)` in front of the usual return;
  fixes/C13-2.patch for the ring device), the usual one if there is no such branch.

Anything else raises TranslatorError: the hand model of `transpile` (Model/Transpile.lean) is only
valid for a source that has one of the two recognised shapes."""
import ast, os

from vlib.core import TranslatorError
from vlib import paths

DEVICES = [("linearSpinChain", "LinearSpinChain"), ("circularSpinChain", "CircularSpinChain"),
           ("scQubits", "SCQubits"), ("cavityQED", "DispersiveCavityQED")]
FILES = ["device/processor.py", "device/modelprocessor.py", "device/spinchain.py", "device/circuitqed.py",
         "device/cavityqed.py"]
GNAMES = ("RX RY RZ PHASEGATE CRX CRY CRZ CPHASE X Y Z S T SNOT SQRTNOT IDLE CNOT CSIGN CZ CY CS CT SWAP ISWAP "
          "SQRTSWAP SQRTISWAP BERKELEY FREDKIN TOFFOLI GLOBALPHASE SWAPalpha R QASMU MS RZX").split()

TRANSPILE_OLD = '''
try:
    qc = self.topology_map(qc)
except NotImplementedError:
    pass
if self.native_gates is not None:
    qc = qc.resolve_gates(basis=self.native_gates)
return qc
'''
TRANSPILE_NEW = '''
if self.native_gates is not None:
    qc = self._decompose_multi_qubit_gates(qc)
''' + TRANSPILE_OLD
GUARD = '''
if qc.N > self.num_qubits:
    raise ValueError("")
'''
PRE_BODY = '''
qc_t = deepcopy(qc)
qc_t.gates = []
for gate in qc.gates:
    if isinstance(gate, Gate) and len(gate.get_all_qubits()) > 2:
        temp = QubitCircuit(qc.N)
        temp.add_gate(gate)
        qc_t.gates.extend(temp.resolve_gates("CNOT").gates)
    else:
        qc_t.gates.append(gate)
return qc_t
'''


def _src(rel):
    p = os.path.join(paths.REPO, "src", "qutip_qip", rel)
    try:
        return ast.parse(open(p).read(), filename=p)
    except (OSError, SyntaxError) as e:
        raise TranslatorError(f"cannot parse {rel}: {e}")


def _classes():
    table = {}
    for rel in FILES:
        for node in _src(rel).body:
            if isinstance(node, ast.ClassDef):
                table[node.name] = node
    return table


def _mro(table, name):
    out = []
    while name in table:
        cls = table[name]
        out.append(cls)
        bases = [b.id for b in cls.bases if isinstance(b, ast.Name)]
        if len(cls.bases) > 1:
            raise TranslatorError(f"class {name}: multiple inheritance is not modelled")
        name = bases[0] if bases else None
    return out


def _method(cls, name):
    for n in cls.body:
        if isinstance(n, ast.FunctionDef) and n.name == name:
            return n
    return None


def _strip_doc(body):
    if body and isinstance(body[0], ast.Expr) and isinstance(getattr(body[0], "value", None), ast.Constant) \
            and isinstance(body[0].value.value, str):
        return body[1:]
    return body


def _dump(stmts):
    return [ast.dump(s) for s in stmts]


def _native(mro, dev):
    for cls in mro:
        init = _method(cls, "__init__")
        if init is None:
            continue
        found = None
        for node in ast.walk(init):
            if isinstance(node, ast.Assign):
                for t in node.targets:
                    if isinstance(t, ast.Attribute) and t.attr == "native_gates" and isinstance(t.value, ast.Name) \
                            and t.value.id == "self":
                        found = node.value
        if found is None:
            continue
        if isinstance(found, ast.Constant) and found.value is None:
            return None
        if isinstance(found, ast.List) and all(isinstance(e, ast.Constant) and isinstance(e.value, str) for e in found.elts):
            return [e.value for e in found.elts]
        raise TranslatorError(f"{dev}: native_gates is not a literal list of gate names ({ast.unparse(found)})")
    raise TranslatorError(f"{dev}: no assignment to self.native_gates in any __init__ of its classes")


def _chain_default():
    tree = _src("transpiler/chain.py")
    for n in tree.body:
        if isinstance(n, ast.FunctionDef) and n.name == "to_chain_structure":
            args = [a.arg for a in n.args.args]
            if args[:2] != ["qc", "setup"] or len(n.args.defaults) != 1 or not isinstance(n.args.defaults[0], ast.Constant):
                raise TranslatorError("to_chain_structure: signature is not (qc, setup=<constant>)")
            return n.args.defaults[0].value
    raise TranslatorError("transpiler/chain.py: to_chain_structure not found")


SWAP_GATES = ["SWAP", "ISWAP", "SQRTISWAP", "SQRTSWAP", "BERKELEY", "SWAPalpha"]
RZX_SHAPE = '''
ordered_gates = ["RZX"]
ordered = gate.name in ordered_gates
flip_fwd = ordered and gate.targets[0] == end
flip_bwd = ordered and gate.targets[0] == start
'''
RZX_TEST = "gate.name in swap_gates or gate.name in ordered_gates"


def route_rzx():
    """Does `to_chain_structure` route RZX (fixes/C13-3.patch)?  True: the list `ordered_gates = ["RZX"]`, the branch
    `elif gate.name in swap_gates or gate.name in ordered_gates`, the three flag assignments and the four
    `[b, a] if flip_* else [a, b]` target lists; False: none of this and `swap_gates` is the list of the six
    exchange-type names.  Anything else (e.g. RZX put into `swap_gates`, which would exchange its targets) is not a
    modelled shape."""
    tree = _src("transpiler/chain.py")
    fns = [n for n in tree.body if isinstance(n, ast.FunctionDef) and n.name == "to_chain_structure"]
    if len(fns) != 1:
        raise TranslatorError("transpiler/chain.py: to_chain_structure not found")
    fn = fns[0]
    assigns = {}
    for n in ast.walk(fn):
        if isinstance(n, ast.Assign) and len(n.targets) == 1 and isinstance(n.targets[0], ast.Name):
            assigns.setdefault(n.targets[0].id, []).append(n.value)
    sw = assigns.get("swap_gates", [])
    names = [getattr(e, "value", None) for e in sw[0].elts] if len(sw) == 1 and isinstance(sw[0], ast.List) else None
    # with fixes/C07-6.patch the list also has the name an instance of the class SWAPALPHA carries
    if names not in (SWAP_GATES, SWAP_GATES + ["SWAPALPHA"]):
        raise TranslatorError("to_chain_structure: swap_gates is not the list of the six exchange-type gates "
                              "(optionally followed by the class name SWAPALPHA)")
    mentions = any(isinstance(n, ast.Name) and n.id in ("ordered_gates", "ordered", "flip_fwd", "flip_bwd")
                   for n in ast.walk(fn))
    ifexps = [n for n in ast.walk(fn) if isinstance(n, ast.IfExp)]
    if not mentions:
        if ifexps:
            raise TranslatorError("to_chain_structure: conditional expressions in an unrecognised shape")
        return False
    want = {st.targets[0].id: ast.dump(st.value) for st in ast.parse(RZX_SHAPE).body}
    for name, dump in want.items():
        got = assigns.get(name, [])
        if len(got) != 1 or ast.dump(got[0]) != dump:
            raise TranslatorError(f"to_chain_structure: assignment to {name} not recognised")
    tests = [ast.dump(n.test) for n in ast.walk(fn) if isinstance(n, ast.If)]
    if ast.dump(ast.parse(RZX_TEST).body[0].value) not in tests:
        raise TranslatorError("to_chain_structure: branch for exchange-type / ordered gates not recognised")
    flips = []
    for e in ifexps:
        ok = (isinstance(e.test, ast.Name) and e.test.id in ("flip_fwd", "flip_bwd") and isinstance(e.body, ast.List)
              and isinstance(e.orelse, ast.List) and len(e.body.elts) == 2 and len(e.orelse.elts) == 2
              and [ast.dump(x) for x in e.body.elts] == [ast.dump(x) for x in reversed(e.orelse.elts)])
        if not ok:
            raise TranslatorError(f"to_chain_structure: target list not recognised: {ast.unparse(e)}")
        flips.append(e.test.id)
    if sorted(flips) != ["flip_bwd", "flip_bwd", "flip_fwd", "flip_fwd"]:
        raise TranslatorError("to_chain_structure: expected two forward and two backward ordered target lists")
    return True


def route_class_name():
    """Do to_chain_structure and adjacent_gates also route a gate NAMED "SWAPALPHA" - the name an instance of the
    exported class SWAPALPHA carries (fixes/C07-6.patch)?  Both lists alike, else not a modelled shape."""
    found = []
    for rel, fname in (("transpiler/chain.py", "to_chain_structure"), ("circuit/circuit.py", "adjacent_gates")):
        tree = _src(rel)
        fns = [n for n in ast.walk(tree) if isinstance(n, ast.FunctionDef) and n.name == fname]
        if len(fns) != 1:
            raise TranslatorError(f"{rel}: {fname} not found")
        lists = [n.value for n in ast.walk(fns[0]) if isinstance(n, ast.Assign) and len(n.targets) == 1
                 and isinstance(n.targets[0], ast.Name) and n.targets[0].id == "swap_gates"]
        names = [getattr(e, "value", None) for e in lists[0].elts] if len(lists) == 1 and isinstance(lists[0], ast.List) else None
        if names == SWAP_GATES:
            found.append(False)
        elif names == SWAP_GATES + ["SWAPALPHA"]:
            found.append(True)
        else:
            raise TranslatorError(f"{rel}: swap_gates of {fname} not recognised")
    if found[0] != found[1]:
        raise TranslatorError("to_chain_structure and adjacent_gates list different exchange-type gates")
    return found[0]


def _chain_call(st, dev):
    """`return to_chain_structure(qc[, setup])` -> the setup string"""
    if isinstance(st, ast.Return) and isinstance(st.value, ast.Call) and isinstance(st.value.func, ast.Name) \
            and st.value.func.id == "to_chain_structure":
        call = st.value
        args = list(call.args)
        kw = {k.arg: k.value for k in call.keywords}
        if not args or not isinstance(args[0], ast.Name) or args[0].id != "qc" or len(args) > 2 \
                or set(kw) - {"setup"} or (len(args) == 2 and kw):
            raise TranslatorError(f"{dev}: unrecognised call {ast.unparse(call)}")
        s = args[1] if len(args) == 2 else kw.get("setup")
        if s is None:
            return _chain_default()
        if isinstance(s, ast.Constant) and isinstance(s.value, str):
            return s.value
    raise TranslatorError(f"{dev}: topology_map body not recognised: {ast.unparse(st)}")


SMALL_TEST = ast.dump(ast.parse("qc.N < self.num_qubits").body[0].value)


def _topo(mro, dev):
    """-> (setup, setup for a circuit on fewer qubits than the processor); (None, None) = no topology map"""
    for cls in mro:
        f = _method(cls, "topology_map")
        if f is None:
            continue
        body = _strip_doc(f.body)
        if [a.arg for a in f.args.args] != ["self", "qc"] or len(body) not in (1, 2):
            raise TranslatorError(f"{dev}: topology_map is not a one- or two-statement method of (self, qc)")
        if len(body) == 2:
            br = body[0]
            if not (isinstance(br, ast.If) and ast.dump(br.test) == SMALL_TEST and len(br.body) == 1 and not br.orelse):
                raise TranslatorError(f"{dev}: topology_map body not recognised: {ast.unparse(br)}")
            return _chain_call(body[1], dev), _chain_call(br.body[0], dev)
        st = body[0]
        if isinstance(st, ast.Raise) and isinstance(st.exc, ast.Name) and st.exc.id == "NotImplementedError":
            return None, None
        s = _chain_call(st, dev)
        return s, s
    raise TranslatorError(f"{dev}: no topology_map in its classes")


def _transpile_shape(mro, dev):
    for cls in mro:
        f = _method(cls, "transpile")
        if f is None:
            continue
        if cls.name != "ModelProcessor":
            raise TranslatorError(f"{dev}: transpile is overridden in {cls.name}")
        stmts = _strip_doc(f.body)
        guard = False
        g = ast.parse(GUARD).body[0]
        if stmts and isinstance(stmts[0], ast.If) and ast.dump(stmts[0].test) == ast.dump(g.test):
            st = stmts[0]
            if st.orelse or len(st.body) != 1 or not isinstance(st.body[0], ast.Raise) \
                    or not isinstance(st.body[0].exc, ast.Call) or not isinstance(st.body[0].exc.func, ast.Name) \
                    or st.body[0].exc.func.id != "ValueError":
                raise TranslatorError("ModelProcessor.transpile: size check not recognised")
            guard, stmts = True, stmts[1:]
        body = _dump(stmts)
        if body == _dump(ast.parse(TRANSPILE_OLD).body):
            return False, guard
        if body == _dump(ast.parse(TRANSPILE_NEW).body):
            h = _method(cls, "_decompose_multi_qubit_gates")
            if h is None or _dump(_strip_doc(h.body)) != _dump(ast.parse(PRE_BODY).body) \
                    or [a.arg for a in h.args.args] != ["qc"] \
                    or [ast.unparse(d) for d in h.decorator_list] != ["staticmethod"]:
                raise TranslatorError("ModelProcessor._decompose_multi_qubit_gates not recognised")
            return True, guard
        raise TranslatorError("ModelProcessor.transpile has none of the modelled shapes")
    raise TranslatorError(f"{dev}: no transpile method")


def extract():
    """-> (device table, pre: bool) — the interface other translators use (C06)"""
    devs, (pre, _guard, _rz) = extract_all()
    return devs, pre


def extract_all():
    """-> ({lean device name: (python class, native list | None, setup | None, setup for smaller circuits | None)},
    (pre: bool, guard: bool, rz: bool))"""
    table = _classes()
    out, pres = {}, set()
    for lname, cname in DEVICES:
        if cname not in table:
            raise TranslatorError(f"class {cname} not found in the device files")
        mro = _mro(table, cname)
        out[lname] = (cname, _native(mro, cname)) + _topo(mro, cname)
        pres.add(_transpile_shape(mro, cname))
    if len(pres) != 1:
        raise TranslatorError("the devices do not share one transpile method")
    return out, pres.pop() + (route_rzx(),)


def _lname(n):
    return "." + n if n in GNAMES else f'.other "{n}"'


def _lsetup(s):
    if s is None:
        return "none"
    return {"linear": "some .linear", "circular": "some .circular"}.get(s, "some .other")


def render(devs, pre):
    L = ["import QipVerif.Model.Transpile", "import QipVerif.Gen.DecompTables",
         "/-! GENERATED by py/translate/devices.py from /repo/src/qutip_qip/device/{modelprocessor,spinchain,circuitqed,"
         "cavityqed}.py and transpiler/chain.py — do not edit. -/",
         "namespace QipVerif.Gen", "open QipVerif QipVerif.Transpile", ""]
    pre, guard, rz = pre
    for lname, (cname, native, setup, small) in devs.items():
        nat = "none" if native is None else "some [" + ", ".join(_lname(n) for n in native) + "]"
        L.append(f"/-- `{cname}`: native_gates = {native!r}, topology_map setup = {setup!r} -/")
        L.append(f"def spec_{cname} : DeviceSpec := ⟨{nat}, {_lsetup(setup)}⟩")
        L.append(f"/-- … and for a circuit with `qc.N < num_qubits`: setup = {small!r} -/")
        L.append(f"def specSmall_{cname} : DeviceSpec := ⟨{nat}, {_lsetup(small)}⟩")
        L.append("")
    L.append("def deviceSpec : Device → DeviceSpec")
    for lname, (cname, *_r) in devs.items():
        L.append(f"  | .{lname} => spec_{cname}")
    L.append("")
    L.append("def deviceSpecSmall : Device → DeviceSpec")
    for lname, (cname, *_r) in devs.items():
        L.append(f"  | .{lname} => specSmall_{cname}")
    L.append("")
    L.append("/-- does `ModelProcessor.transpile` decompose the gates on more than two qubits before `topology_map`? -/")
    L.append(f"def preDecompose : Bool := {'true' if pre else 'false'}")
    L.append("")
    L.append("/-- does `ModelProcessor.transpile` refuse a circuit on more qubits than the processor has? -/")
    L.append(f"def sizeGuard : Bool := {'true' if guard else 'false'}")
    L.append("")
    L.append("/-- does `to_chain_structure` route RZX (`ordered_gates`)? -/")
    L.append(f"def routeRzx : Bool := {'true' if rz else 'false'}")
    L.append("")
    L.append("/-- `processor.transpile(qc).gates`, `qc.N = num_qubits = N`, with the router that does not know RZX "
             "(= the current source for every circuit without RZX, `Lemmas/TranspileRzx.lean`) -/")
    L.append("def transpile (dev : Device) (N : Nat) (gs : List Gate) : Except Transpile.Err (List Gate) :=")
    L.append("  transpileV tables preDecompose (deviceSpec dev) N gs")
    L.append("")
    L.append("/-- `processor.transpile(qc).gates` of the current source for a processor with `M` qubits and a circuit "
             "with `qc.N = N` -/")
    L.append("def transpileOn (dev : Device) (M N : Nat) (gs : List Gate) : Except Transpile.ErrD (List Gate) :=")
    L.append("  transpileDR tables preDecompose sizeGuard routeRzx (deviceSpec dev) (deviceSpecSmall dev) M N gs")
    L.append("")
    L.append("end QipVerif.Gen")
    return "\n".join(L) + "\n"


def write_if_changed(path, content):
    if os.path.exists(path) and open(path).read() == content:
        return False
    with open(path, "w") as f:
        f.write(content)
    return True


def regenerate():
    """-> (device table, (pre, guard), file changed)"""
    devs, flags = extract_all()
    path = os.path.join(paths.LEAN, "QipVerif", "Gen", "DeviceTables.lean")
    changed = write_if_changed(path, render(devs, flags))
    return devs, flags, changed
