"""Regenerates lean/QipVerif/Gen/SpinChainTables.lean from /repo with `ast` (no import of the package).

What is read (property C06):

* compiler/spinchaincompiler.py   the gate -> compiler-method map of `SpinChainCompiler` (with the base class
                                  entries of `GateCompiler`), every method classified as rotation / exchange /
                                  global phase / idle; the area formula of `_rotation_compiler`
                                  (`gate.arg_value / 2.0 / np.pi * 0.5`), which parameter and which qubit index it
                                  uses; the exchange areas (`-1 / 8`, `-1 / 16`); `_swap_compiler`: q1, q2 = min, max,
                                  the strength index, the condition and both branches of the coupling label
* compiler/gatecompiler.py        `generate_pulse_shape` for the rectangular window (`_normalized_window` returns
                                  `1.0, 1.0`): coefficient and duration as expressions in `maximum`, `area`;
                                  `compile`: does it reset `self.global_phase` before the gate loop
* device/spinchain.py             `SpinChainModel._set_up_controls`: prefactor, operator and qubits of every control
                                  Hamiltonian, `_get_num_coupling`, the parameter defaults and lengths;
                                  `SpinChain.load_circuit`: hands the compiler's global phase to the processor

Arithmetic expressions are translated TERM BY TERM into Lean functions over an abstract arithmetic
(`Arith α`: instantiated with `Rat` by the executable model and with `ℝ` by the theorems), integer index
expressions into Lean `Int` expressions.  A source whose shape is not recognised raises TranslatorError."""
import ast, os
from fractions import Fraction

from vlib.core import TranslatorError
from vlib import paths

OUT = os.path.join(paths.LEAN, "QipVerif", "Gen", "SpinChainTables.lean")


def _parse(rel):
    p = os.path.join(paths.REPO, "src", "qutip_qip", rel)
    try:
        src = open(p).read()
        return ast.parse(src, filename=p), src
    except (OSError, SyntaxError) as e:
        raise TranslatorError(f"cannot parse {rel}: {e}")


def _cls(tree, name, rel):
    for n in tree.body:
        if isinstance(n, ast.ClassDef) and n.name == name:
            return n
    raise TranslatorError(f"{rel}: class {name} not found")


def _meth(cls, name, required=True):
    for n in cls.body:
        if isinstance(n, ast.FunctionDef) and n.name == name:
            return n
    if required:
        raise TranslatorError(f"class {cls.name}: method {name} not found")
    return None


def _func(tree, name, rel):
    for n in tree.body:
        if isinstance(n, ast.FunctionDef) and n.name == name:
            return n
    raise TranslatorError(f"{rel}: function {name} not found")


def _body(fn):
    """statements without the docstring"""
    b = list(fn.body)
    if b and isinstance(b[0], ast.Expr) and isinstance(b[0].value, ast.Constant) and isinstance(b[0].value.value, str):
        b = b[1:]
    return b


def _dump(n):
    return ast.dump(n).replace("ctx=Store()", "ctx=Load()")


def _is_attr(n, obj, attr):
    return isinstance(n, ast.Attribute) and n.attr == attr and isinstance(n.value, ast.Name) and n.value.id == obj


def _same(node, code):
    """node is structurally the expression `code`"""
    return _dump(node) == _dump(ast.parse(code, mode="eval").body)


def _same_stmt(node, code):
    return _dump(node) == _dump(ast.parse(code).body[0])


# ------------------------------------------------------------------------------------------
# arithmetic expressions -> Lean terms over `Arith α`

class Ar:
    """translator of a Python arithmetic expression; `env` maps names / attribute paths to Lean terms"""

    def __init__(self, env, src, what):
        self.env, self.src, self.what = env, src, what

    def bad(self, n):
        raise TranslatorError(f"{self.what}: unsupported expression `{ast.get_source_segment(self.src, n) or _dump(n)}`")

    def key(self, n):
        if isinstance(n, ast.Name):
            return n.id
        if isinstance(n, ast.Attribute):
            k = self.key(n.value)
            return None if k is None else k + "." + n.attr
        return None

    def tr(self, n):
        k = self.key(n)
        if k is not None:
            if k in self.env:
                return self.env[k]
            self.bad(n)
        if isinstance(n, ast.Constant) and isinstance(n.value, (int, float)) and not isinstance(n.value, bool):
            seg = ast.get_source_segment(self.src, n)
            try:
                f = Fraction(seg)
            except (ValueError, TypeError):
                f = Fraction(n.value)
            if f < 0:
                self.bad(n)
            return f"(Arith.ofFrac {f.numerator} {f.denominator})"
        if isinstance(n, ast.UnaryOp) and isinstance(n.op, ast.USub):
            return f"(Arith.neg {self.tr(n.operand)})"
        if isinstance(n, ast.UnaryOp) and isinstance(n.op, ast.UAdd):
            return self.tr(n.operand)
        if isinstance(n, ast.BinOp):
            op = {ast.Add: "add", ast.Sub: "sub", ast.Mult: "mul", ast.Div: "div"}.get(type(n.op))
            if op is None:
                self.bad(n)
            return f"(Arith.{op} {self.tr(n.left)} {self.tr(n.right)})"
        if isinstance(n, ast.Call) and len(n.args) == 1 and not n.keywords:
            f = self.key(n.func)
            if f in ("abs", "np.abs", "np.absolute", "numpy.abs"):
                return f"(Arith.abs {self.tr(n.args[0])})"
            if f in ("np.sign", "numpy.sign"):
                return f"(Arith.sign {self.tr(n.args[0])})"
        self.bad(n)


def const_fraction(n, src, what):
    """exact value of a constant arithmetic expression"""
    if isinstance(n, ast.Constant) and isinstance(n.value, (int, float)) and not isinstance(n.value, bool):
        seg = ast.get_source_segment(src, n)
        try:
            return Fraction(seg)
        except (ValueError, TypeError):
            return Fraction(n.value)
    if isinstance(n, ast.UnaryOp) and isinstance(n.op, ast.USub):
        return -const_fraction(n.operand, src, what)
    if isinstance(n, ast.BinOp):
        a, b = const_fraction(n.left, src, what), const_fraction(n.right, src, what)
        if isinstance(n.op, ast.Add):
            return a + b
        if isinstance(n.op, ast.Sub):
            return a - b
        if isinstance(n.op, ast.Mult):
            return a * b
        if isinstance(n.op, ast.Div) and b != 0:
            return a / b
    raise TranslatorError(f"{what}: not a constant rational expression")


# ------------------------------------------------------------------------------------------
# integer / boolean index expressions -> Lean `Int` / `Bool` terms

class Ix:
    def __init__(self, env, src, what):
        self.env, self.src, self.what = env, src, what

    def bad(self, n):
        raise TranslatorError(f"{self.what}: unsupported index expression `{ast.get_source_segment(self.src, n) or _dump(n)}`")

    def key(self, n):
        if isinstance(n, ast.Name):
            return n.id
        if isinstance(n, ast.Attribute):
            k = self.key(n.value)
            return None if k is None else k + "." + n.attr
        return None

    def i(self, n):
        k = self.key(n)
        if k is not None:
            if k in self.env:
                return self.env[k]
            self.bad(n)
        if isinstance(n, ast.Constant) and isinstance(n.value, int) and not isinstance(n.value, bool):
            return f"({n.value} : Int)"
        if isinstance(n, ast.UnaryOp) and isinstance(n.op, ast.USub):
            return f"(-{self.i(n.operand)})"
        if isinstance(n, ast.BinOp):
            op = {ast.Add: "+", ast.Sub: "-", ast.Mult: "*", ast.Mod: "%"}.get(type(n.op))
            if op is None:
                self.bad(n)
            return f"({self.i(n.left)} {op} {self.i(n.right)})"
        self.bad(n)

    def b(self, n):
        if isinstance(n, ast.BoolOp):
            op = "&&" if isinstance(n.op, ast.And) else "||"
            return "(" + f" {op} ".join(self.b(v) for v in n.values) + ")"
        if isinstance(n, ast.UnaryOp) and isinstance(n.op, ast.Not):
            return f"(!{self.b(n.operand)})"
        if isinstance(n, ast.Compare) and len(n.ops) == 1:
            l, r = self.i(n.left), self.i(n.comparators[0])
            t = type(n.ops[0])
            if t is ast.Eq:
                return f"({l} == {r})"
            if t is ast.NotEq:
                return f"({l} != {r})"
            if t is ast.Lt:
                return f"(decide ({l} < {r}))"
            if t is ast.LtE:
                return f"(decide ({l} ≤ {r}))"
            if t is ast.Gt:
                return f"(decide ({r} < {l}))"
            if t is ast.GtE:
                return f"(decide ({r} ≤ {l}))"
        if isinstance(n, ast.Constant) and isinstance(n.value, bool):
            return "true" if n.value else "false"
        self.bad(n)


# ------------------------------------------------------------------------------------------

def _label_expr(n, what):
    """`"prefix" + str(<index expression>)` -> (prefix, index node)"""
    if (isinstance(n, ast.BinOp) and isinstance(n.op, ast.Add) and isinstance(n.left, ast.Constant)
            and isinstance(n.left.value, str) and isinstance(n.right, ast.Call) and isinstance(n.right.func, ast.Name)
            and n.right.func.id == "str" and len(n.right.args) == 1):
        return n.left.value, n.right.args[0]
    if (isinstance(n, ast.BinOp) and isinstance(n.op, ast.Add) and isinstance(n.left, ast.Name)
            and isinstance(n.right, ast.Call) and isinstance(n.right.func, ast.Name)
            and n.right.func.id == "str" and len(n.right.args) == 1):
        return ("$" + n.left.id), n.right.args[0]
    raise TranslatorError(f"{what}: label is not `<prefix> + str(<index>)`")


def _compiler_tables():
    rel = "compiler/spinchaincompiler.py"
    tree, src = _parse(rel)
    cls = _cls(tree, "SpinChainCompiler", rel)
    relb = "compiler/gatecompiler.py"
    treeb, srcb = _parse(relb)
    base = _cls(treeb, "GateCompiler", relb)
    if [b.id for b in cls.bases if isinstance(b, ast.Name)] != ["GateCompiler"]:
        raise TranslatorError("SpinChainCompiler no longer derives from GateCompiler only")

    # --- gate -> method map -------------------------------------------------------------
    def dict_of(node, what):
        if not isinstance(node, ast.Dict):
            raise TranslatorError(f"{what}: not a dict literal")
        out = []
        for k, v in zip(node.keys, node.values):
            if not (isinstance(k, ast.Constant) and isinstance(k.value, str) and isinstance(v, ast.Attribute)
                    and isinstance(v.value, ast.Name) and v.value.id == "self"):
                raise TranslatorError(f"{what}: entry is not `\"NAME\": self.<method>`")
            out.append((k.value, v.attr))
        return out

    gmap = {}
    binit = _meth(base, "__init__")
    found = False
    for st in ast.walk(binit):
        if isinstance(st, ast.Assign) and len(st.targets) == 1 and _is_attr(st.targets[0], "self", "gate_compiler") \
                and isinstance(st.value, ast.Dict) and st.value.keys:
            for k, m in dict_of(st.value, "GateCompiler.__init__ gate_compiler"):
                gmap[k] = m
            found = True
    if not found:
        raise TranslatorError("GateCompiler.__init__: gate_compiler dict literal not found")
    init = _meth(cls, "__init__")
    found = False
    for st in ast.walk(init):
        if (isinstance(st, ast.Call) and isinstance(st.func, ast.Attribute) and st.func.attr == "update"
                and _is_attr(st.func.value, "self", "gate_compiler") and len(st.args) == 1):
            for k, m in dict_of(st.args[0], "SpinChainCompiler.__init__ gate_compiler.update"):
                gmap[k] = m
            found = True
    if not found:
        raise TranslatorError("SpinChainCompiler.__init__: self.gate_compiler.update({...}) not found")

    def resolve(mname):
        m = _meth(cls, mname, required=False)
        if m is not None:
            return m, src
        m = _meth(base, mname, required=False)
        if m is not None:
            return m, srcb
        raise TranslatorError(f"compiler method {mname} not found")

    rules = []     # (gate name, lean Rule term)
    exch_area = {}
    for gname, mname in gmap.items():
        m, msrc = resolve(mname)
        body = _body(m)
        if [a.arg for a in m.args.args] != ["self", "gate", "args"]:
            raise TranslatorError(f"{mname}: signature is not (self, gate, args)")
        if len(body) == 1 and isinstance(body[0], ast.Pass):
            rules.append((gname, ".noop"))
            continue
        if len(body) == 1 and _same_stmt(body[0], "self.global_phase += gate.arg_value"):
            rules.append((gname, ".phase"))
            continue
        if (len(body) == 2 and _same_stmt(body[0], "idle_time = gate.arg_value")
                and _same_stmt(body[1], "return [Instruction(gate, idle_time, [])]")):
            rules.append((gname, ".idle"))
            continue
        if len(body) == 1 and isinstance(body[0], ast.Return) and isinstance(body[0].value, ast.Call):
            c = body[0].value
            if _is_attr(c.func, "self", "_rotation_compiler") and len(c.args) == 4 and not c.keywords \
                    and _same(c.args[0], "gate") and _same(c.args[3], "args") \
                    and all(isinstance(a, ast.Constant) and isinstance(a.value, str) for a in c.args[1:3]):
                rules.append((gname, f'(.rotation "{c.args[1].value}" "{c.args[2].value}")'))
                continue
            if _is_attr(c.func, "self", "_swap_compiler"):
                kw = {k.arg: k.value for k in c.keywords}
                pos = list(c.args)
                if len(pos) == 1 and _same(pos[0], "gate") and set(kw) == {"area", "args"} and _same(kw["args"], "args"):
                    f = const_fraction(kw["area"], msrc, f"{mname}: area")
                    exch_area[gname] = f
                    rules.append((gname, f"(.exchange ({f.numerator}) {f.denominator})"))
                    continue
        raise TranslatorError(f"compiler method {mname} (gate {gname}) has an unrecognised body")

    # --- _rotation_compiler -----------------------------------------------------------------
    rot = _meth(cls, "_rotation_compiler")
    if [a.arg for a in rot.args.args] != ["self", "gate", "op_label", "param_label", "args"]:
        raise TranslatorError("_rotation_compiler: signature changed")
    rb = _body(rot)
    if not (len(rb) == 4 and _same_stmt(rb[0], "targets = gate.targets")
            and _same_stmt(rb[3], "return [Instruction(gate, tlist, pulse_info)]")):
        raise TranslatorError("_rotation_compiler: unrecognised statement sequence")
    st = rb[1]
    if not (isinstance(st, ast.Assign) and _dump(st.targets[0]) == _dump(ast.parse("coeff, tlist = 0").body[0].targets[0])
            and isinstance(st.value, ast.Call) and _is_attr(st.value.func, "self", "generate_pulse_shape")
            and len(st.value.args) == 2 and _same(st.value.args[0], 'args["shape"]')
            and _same(st.value.args[1], 'args["num_samples"]')
            and sorted(k.arg for k in st.value.keywords) == ["area", "maximum"]):
        raise TranslatorError("_rotation_compiler: call of generate_pulse_shape not recognised")
    kw = {k.arg: k.value for k in st.value.keywords}
    if not _same(kw["maximum"], "self.params[param_label][targets[0]]"):
        raise TranslatorError("_rotation_compiler: maximum is not self.params[param_label][targets[0]]")
    rot_area = Ar({"gate.arg_value": "theta", "np.pi": "pi", "numpy.pi": "pi"}, src, "_rotation_compiler area").tr(kw["area"])
    st = rb[2]
    if not (isinstance(st, ast.Assign) and _same(st.targets[0], "pulse_info") and isinstance(st.value, ast.List)
            and len(st.value.elts) == 1 and isinstance(st.value.elts[0], ast.Tuple) and len(st.value.elts[0].elts) == 2
            and _same(st.value.elts[0].elts[1], "coeff")):
        raise TranslatorError("_rotation_compiler: pulse_info not recognised")
    pre, idx = _label_expr(st.value.elts[0].elts[0], "_rotation_compiler")
    if pre != "$op_label" or not _same(idx, "targets[0]"):
        raise TranslatorError("_rotation_compiler: label is not op_label + str(targets[0])")

    # --- _swap_compiler -----------------------------------------------------------------------
    sw = _meth(cls, "_swap_compiler")
    if [a.arg for a in sw.args.args] != ["self", "gate", "area", "args"]:
        raise TranslatorError("_swap_compiler: signature changed")
    sb = _body(sw)
    if not (len(sb) == 8 and _same_stmt(sb[0], "targets = gate.targets")
            and _same_stmt(sb[3], "maximum = g")
            and _same_stmt(sb[6], "pulse_info = [(pulse_name, coeff)]")
            and _same_stmt(sb[7], "return [Instruction(gate, tlist, pulse_info)]")):
        raise TranslatorError("_swap_compiler: unrecognised statement sequence")
    st = sb[1]
    if not (isinstance(st, ast.Assign) and _dump(st.targets[0]) == _dump(ast.parse("q1, q2 = 0").body[0].targets[0])
            and isinstance(st.value, ast.Tuple) and len(st.value.elts) == 2):
        raise TranslatorError("_swap_compiler: `q1, q2 = ...` not recognised")
    sel = []
    for e in st.value.elts:
        if _same(e, "min(targets)"):
            sel.append("imin a b")
        elif _same(e, "max(targets)"):
            sel.append("imax a b")
        else:
            raise TranslatorError("_swap_compiler: q1, q2 are not min/max of the targets")
    st = sb[2]
    if not (isinstance(st, ast.Assign) and _same(st.targets[0], "g") and isinstance(st.value, ast.Subscript)
            and isinstance(st.value.value, ast.Subscript) and _same(st.value.value.value, "self.params")
            and isinstance(st.value.value.slice, ast.Constant)):
        raise TranslatorError("_swap_compiler: strength is not self.params[<key>][<index>]")
    sw_key = st.value.value.slice.value
    ienv = {"q1": "q1", "q2": "q2", "self.N": "N", "self.num_qubits": "N"}
    sw_idx = Ix(ienv, src, "_swap_compiler strength index").i(st.value.slice)
    st = sb[4]
    if not (isinstance(st, ast.Assign) and isinstance(st.value, ast.Call)
            and _is_attr(st.value.func, "self", "generate_pulse_shape") and not st.value.keywords
            and len(st.value.args) == 4 and _same(st.value.args[0], 'args["shape"]')
            and _same(st.value.args[1], 'args["num_samples"]') and _same(st.value.args[2], "maximum")
            and _same(st.value.args[3], "area")):
        raise TranslatorError("_swap_compiler: call of generate_pulse_shape not recognised")
    st = sb[5]
    if not (isinstance(st, ast.If) and len(st.body) == 1 and len(st.orelse) == 1
            and all(isinstance(x, ast.Assign) and _same(x.targets[0], "pulse_name") for x in (st.body[0], st.orelse[0]))):
        raise TranslatorError("_swap_compiler: label choice is not `if ...: pulse_name = ... else: pulse_name = ...`")
    ix = Ix(ienv, src, "_swap_compiler label")
    cond = ix.b(st.test)
    p1, e1 = _label_expr(st.body[0].value, "_swap_compiler")
    p2, e2 = _label_expr(st.orelse[0].value, "_swap_compiler")
    if p1 != p2 or p1.startswith("$"):
        raise TranslatorError("_swap_compiler: the two label branches use different prefixes")
    sw_label = f"if {cond} then {ix.i(e1)} else {ix.i(e2)}"

    # --- generate_pulse_shape, rectangular ------------------------------------------------------
    nw = _func(treeb, "_normalized_window", relb)
    ok = False
    for st in _body(nw):
        if isinstance(st, ast.If) and _same(st.test, 'shape == "rectangular"') and len(st.body) == 1 \
                and isinstance(st.body[0], ast.Return) and isinstance(st.body[0].value, ast.Tuple):
            c0, t0 = (const_fraction(e, srcb, "_normalized_window") for e in st.body[0].value.elts)
            ok = True
            break
    if not ok:
        raise TranslatorError("_normalized_window: rectangular branch not recognised")
    gp = _meth(base, "generate_pulse_shape")
    if [a.arg for a in gp.args.args] != ["cls", "shape", "num_samples", "maximum", "area"]:
        raise TranslatorError("generate_pulse_shape: signature changed")
    gb = _body(gp)
    if not (gb and _same_stmt(gb[0], "coeff, tlist = _normalized_window(shape, num_samples)")
            and _same_stmt(gb[-1], "return coeff, tlist")):
        raise TranslatorError("generate_pulse_shape: first/last statement not recognised")
    env = {"maximum": "maximum", "area": "area",
           "coeff": f"(Arith.ofFrac {c0.numerator} {c0.denominator})", "tlist": f"(Arith.ofFrac {t0.numerator} {t0.denominator})"}
    for st in gb[1:-1]:
        ar = Ar(dict(env), srcb, "generate_pulse_shape")
        if isinstance(st, ast.Assign) and len(st.targets) == 1 and isinstance(st.targets[0], ast.Name):
            env[st.targets[0].id] = ar.tr(st.value)
        elif isinstance(st, ast.AugAssign) and isinstance(st.target, ast.Name) and st.target.id in env:
            op = {ast.Add: "add", ast.Sub: "sub", ast.Mult: "mul", ast.Div: "div"}.get(type(st.op))
            if op is None:
                raise TranslatorError("generate_pulse_shape: unsupported augmented assignment")
            env[st.target.id] = f"(Arith.{op} {env[st.target.id]} {ar.tr(st.value)})"
        else:
            raise TranslatorError("generate_pulse_shape: unsupported statement")
    pulse_coeff, pulse_dur = env["coeff"], env["tlist"]

    # --- compile: reset of the global phase ---------------------------------------------------------
    comp = _meth(base, "compile")
    resets = False
    seen_loop = False
    for st in _body(comp):
        if isinstance(st, ast.For):
            seen_loop = True
            break
        if isinstance(st, ast.Assign) and _is_attr(st.targets[0], "self", "global_phase"):
            if const_fraction(st.value, srcb, "compile: global_phase reset") != 0:
                raise TranslatorError("compile: global_phase is set to a non-zero constant")
            resets = True
    if not seen_loop:
        raise TranslatorError("compile: gate loop not found")
    old = _dump(ast.parse("instruction_list += instruction").body[0])
    new = _dump(ast.parse("instruction_list += [ins for ins in instruction if ins.duration != 0]").body[0])
    drops = None
    for n in ast.walk(comp):
        if isinstance(n, ast.AugAssign) and isinstance(n.target, ast.Name) and n.target.id == "instruction_list":
            if _dump(n) == old:
                drops = False
            elif _dump(n) == new:
                drops = True
            else:
                raise TranslatorError("compile: `instruction_list += …` has neither of the two modelled shapes")
    if drops is None:
        raise TranslatorError("compile: `instruction_list += …` not found")
    return dict(drops=drops, rules=rules, rot_area=rot_area, sel=sel, sw_key=sw_key, sw_idx=sw_idx, sw_label=sw_label,
                sw_prefix=p1, pulse_coeff=pulse_coeff, pulse_dur=pulse_dur, resets=resets, exch_area=exch_area)


PAULI = {"sigmax": "x", "sigmay": "y", "sigmaz": "z"}


def _model_tables():
    rel = "device/spinchain.py"
    tree, src = _parse(rel)
    mdl = _cls(tree, "SpinChainModel", rel)
    # defaults
    init = _meth(mdl, "__init__")
    defaults = None
    for st in ast.walk(init):
        if isinstance(st, ast.Assign) and _is_attr(st.targets[0], "self", "params") and isinstance(st.value, ast.Dict):
            defaults = {}
            for k, v in zip(st.value.keys, st.value.values):
                if not isinstance(k, ast.Constant):
                    raise TranslatorError("SpinChainModel.__init__: params key not literal")
                defaults[k.value] = const_fraction(v, src, "SpinChainModel defaults")
    if defaults is None or sorted(defaults) != ["sx", "sxsy", "sz"]:
        raise TranslatorError("SpinChainModel.__init__: default parameter dict {sx, sz, sxsy} not recognised")
    # number of couplings
    nc = _meth(mdl, "_get_num_coupling")
    nb = _body(nc)
    ix = Ix({"self.num_qubits": "N"}, src, "_get_num_coupling")
    if not (len(nb) == 2 and isinstance(nb[0], ast.If) and _same(nb[0].test, 'self.setup == "linear"')
            and len(nb[0].body) == 1 and isinstance(nb[0].body[0], ast.Assign)
            and len(nb[0].orelse) == 1 and isinstance(nb[0].orelse[0], ast.If)
            and _same(nb[0].orelse[0].test, 'self.setup == "circular"')
            and isinstance(nb[0].orelse[0].body[0], ast.Assign)
            and _same_stmt(nb[1], "return num_coupling")):
        raise TranslatorError("_get_num_coupling: not the linear/circular case split")
    ncl = ix.i(nb[0].body[0].value)
    ncc = ix.i(nb[0].orelse[0].body[0].value)
    # parameter lengths
    cp = _meth(mdl, "_compute_params")
    want = ['computed_params["sx"] = _to_array(self.params["sx"], num_qubits)',
            'computed_params["sz"] = _to_array(self.params["sz"], num_qubits)',
            'computed_params["sxsy"] = _to_array(self.params["sxsy"], num_coupling)',
            'num_qubits = self.num_qubits', 'num_coupling = self._get_num_coupling()']
    have = [_dump(s) for s in _body(cp)]
    for w in want:
        if _dump(ast.parse(w).body[0]) not in have:
            raise TranslatorError(f"_compute_params: `{w}` not found")
    # controls
    su = _meth(mdl, "_set_up_controls")
    sb = _body(su)
    controls = []     # (prefix, coefficient term, operator terms, qubit index terms, loop bound)
    opdef = {}
    for st in sb:
        if isinstance(st, ast.Assign) and isinstance(st.targets[0], ast.Name) and st.targets[0].id == "operator":
            terms = []

            def term(n, sign):
                if isinstance(n, ast.BinOp) and isinstance(n.op, ast.Add):
                    term(n.left, sign)
                    term(n.right, sign)
                elif isinstance(n, ast.BinOp) and isinstance(n.op, ast.Sub):
                    term(n.left, sign)
                    term(n.right, -sign)
                elif (isinstance(n, ast.Call) and isinstance(n.func, ast.Name) and n.func.id == "tensor"
                      and len(n.args) == 1 and isinstance(n.args[0], ast.List) and len(n.args[0].elts) == 2
                      and all(isinstance(e, ast.Call) and isinstance(e.func, ast.Name) and e.func.id in PAULI
                              and not e.args for e in n.args[0].elts)):
                    terms.append((sign, PAULI[n.args[0].elts[0].func.id], PAULI[n.args[0].elts[1].func.id]))
                else:
                    raise TranslatorError("_set_up_controls: coupling operator is not a sum of tensor([pauli, pauli])")
            term(st.value, 1)
            opdef["operator"] = terms
        if isinstance(st, ast.For):
            if not (isinstance(st.target, ast.Name) and isinstance(st.iter, ast.Call) and _same(st.iter.func, "range")
                    and len(st.iter.args) == 1 and len(st.body) == 1 and isinstance(st.body[0], ast.Assign)
                    and isinstance(st.body[0].targets[0], ast.Subscript)
                    and _same(st.body[0].targets[0].value, "controls")
                    and isinstance(st.body[0].value, ast.Tuple) and len(st.body[0].value.elts) == 2):
                raise TranslatorError("_set_up_controls: loop not recognised")
            var = st.target.id
            bound = ast.unparse(st.iter.args[0])
            pre, idx = _label_expr(st.body[0].targets[0].slice, "_set_up_controls")
            if not _same(idx, var):
                raise TranslatorError("_set_up_controls: label index is not the loop variable")
            ham, tg = st.body[0].value.elts
            if not (isinstance(ham, ast.BinOp) and isinstance(ham.op, ast.Mult)):
                raise TranslatorError("_set_up_controls: Hamiltonian is not <coefficient> * <operator>")
            coef = Ar({"np.pi": "pi", "numpy.pi": "pi"}, src, "_set_up_controls coefficient").tr(ham.left)
            if isinstance(ham.right, ast.Call) and isinstance(ham.right.func, ast.Name) and ham.right.func.id in PAULI \
                    and not ham.right.args:
                op = PAULI[ham.right.func.id]
                kind = "single"
            elif isinstance(ham.right, ast.Name) and ham.right.id in opdef:
                op = opdef[ham.right.id]
                kind = "pair"
            else:
                raise TranslatorError("_set_up_controls: operator not recognised")
            ixx = Ix({var: "n", "num_qubits": "N"}, src, "_set_up_controls targets")
            if kind == "single":
                qs = [ixx.i(tg)]
            else:
                if not (isinstance(tg, ast.List) and len(tg.elts) == 2):
                    raise TranslatorError("_set_up_controls: coupling targets are not a two-element list")
                qs = [ixx.i(e) for e in tg.elts]
            controls.append(dict(prefix=pre, coef=coef, kind=kind, op=op, qubits=qs, bound=bound))
    if [c["kind"] for c in controls] != ["single", "single", "pair"] or \
            [c["bound"] for c in controls] != ["num_qubits", "num_qubits", "num_coupling"]:
        raise TranslatorError("_set_up_controls: expected two single-qubit loops over num_qubits and one coupling loop "
                              "over num_coupling")
    # SpinChain.load_circuit hands the global phase back
    sc = _cls(tree, "SpinChain", rel)
    lc = _meth(sc, "load_circuit")
    hands = any(_same_stmt(st, "self.global_phase = compiler.global_phase") for st in _body(lc))
    mk = False
    for st in ast.walk(lc):
        if isinstance(st, ast.Call) and isinstance(st.func, ast.Name) and st.func.id == "SpinChainCompiler":
            if _dump(st) == _dump(ast.parse("SpinChainCompiler(self.num_qubits, self.params, setup=setup)", mode="eval").body):
                mk = True
    if not mk:
        raise TranslatorError("SpinChain.load_circuit: construction of the default SpinChainCompiler not recognised")
    # ModelProcessor.load_circuit: what happens when compile returns (None, None)
    relm = "device/modelprocessor.py"
    treem, srcm = _parse(relm)
    mp = _cls(treem, "ModelProcessor", relm)
    lcm = _body(_meth(mp, "load_circuit"))
    tail_old = ["self.set_coeffs(coeffs)", "self.set_tlist(tlist)", "return tlist, coeffs"]
    guard = """
if coeffs is None:
    self.clear_pulses()
    return tlist, coeffs
"""
    if len(lcm) >= 3 and [_dump(x) for x in lcm[-3:]] == [_dump(ast.parse(t).body[0]) for t in tail_old]:
        if len(lcm) >= 4 and _dump(lcm[-4]) == _dump(ast.parse(guard).body[0]):
            empty_ok = True
        else:
            empty_ok = False
            if any(isinstance(x, ast.If) and "coeffs is None" in ast.unparse(x.test) for x in lcm):
                raise TranslatorError("ModelProcessor.load_circuit: unrecognised handling of `coeffs is None`")
    else:
        raise TranslatorError("ModelProcessor.load_circuit: the statements saving the compiled pulses are not recognised")
    return dict(defaults=defaults, ncl=ncl, ncc=ncc, controls=controls, hands=hands, empty_ok=empty_ok)


HEADER = '''/-! GENERATED by py/translate/spinchain.py from /repo/src/qutip_qip/compiler/{spinchaincompiler,gatecompiler}.py and
device/spinchain.py — do not edit.  Import-free.

Arithmetic formulas of the source are translated term by term into functions over an abstract arithmetic
`Arith α` (instances: `Rat` in Model/SpinChain.lean for the executable model, `ℝ` in Lemmas/SpinChainReal.lean for
the theorems); `pi` is a parameter.  Index expressions are `Int` expressions. -/
set_option linter.unusedVariables false
namespace QipVerif.Gen.SC

/-- the operations the translated formulas use -/
class Arith (α : Type) where
  add : α → α → α
  sub : α → α → α
  mul : α → α → α
  div : α → α → α
  neg : α → α
  abs : α → α
  /-- `np.sign` -/
  sign : α → α
  /-- the rational constant `n / d` -/
  ofFrac : Int → Nat → α
  /-- `x == 0` (`ins.duration != 0` of `compile`) -/
  isZero : α → Bool

def imin (a b : Int) : Int := if a ≤ b then a else b
def imax (a b : Int) : Int := if a ≤ b then b else a

inductive Pauli | x | y | z
deriving DecidableEq, Repr

/-- what a compiler method of `gate_compiler` does -/
inductive Rule
  /-- `_rotation_compiler(gate, op_label, param_label, args)` -/
  | rotation (opLabel paramLabel : String)
  /-- `_swap_compiler(gate, area = num/den, args)` -/
  | exchange (num : Int) (den : Nat)
  /-- `self.global_phase += gate.arg_value`, no instruction -/
  | phase
  /-- base class `globalphase_compiler`: `pass` -/
  | noop
  /-- `idle_compiler` -/
  | idle
deriving DecidableEq, Repr
'''


def render():
    c = _compiler_tables()
    m = _model_tables()
    L = [HEADER]
    L.append("/-- `SpinChainCompiler(...).gate_compiler`: gate name → compiler method, classified -/")
    L.append("def gateCompiler : List (String × Rule) :=\n  [" +
             ",\n   ".join(f'("{g}", {r})' for g, r in c["rules"]) + "]\n")
    L.append("variable {α : Type} [Arith α]\n")
    L.append("/-- `_rotation_compiler`: `area=` argument of `generate_pulse_shape` (`theta` = `gate.arg_value`);\n"
             "`maximum = self.params[param_label][targets[0]]`, channel `op_label + str(targets[0])` -/")
    L.append(f"def rotArea (pi theta : α) : α :=\n  {c['rot_area']}\n")
    L.append("/-- `generate_pulse_shape(\"rectangular\", …, maximum, area)`: returned `coeff` -/")
    L.append(f"def pulseCoeff (maximum area : α) : α :=\n  {c['pulse_coeff']}\n")
    L.append("/-- `generate_pulse_shape(\"rectangular\", …, maximum, area)`: returned `tlist` (the duration) -/")
    L.append(f"def pulseDur (maximum area : α) : α :=\n  {c['pulse_dur']}\n")
    L.append("/-- `_swap_compiler`: `q1, q2 = …(targets)` for `targets = [a, b]` -/")
    L.append(f"def swapQ1 (a b : Int) : Int := {c['sel'][0]}")
    L.append(f"def swapQ2 (a b : Int) : Int := {c['sel'][1]}\n")
    L.append(f"/-- `_swap_compiler`: `g = self.params[\"{c['sw_key']}\"][…]` -/")
    L.append(f'def swapParamKey : String := "{c["sw_key"]}"')
    L.append(f"def swapStrengthIdx (N q1 q2 : Int) : Int := {c['sw_idx']}\n")
    L.append(f"/-- `_swap_compiler`: `pulse_name = \"{c['sw_prefix']}\" + str(…)` -/")
    L.append(f'def swapPrefix : String := "{c["sw_prefix"]}"')
    L.append(f"def swapLabelIdx (N q1 q2 : Int) : Int := {c['sw_label']}\n")
    L.append("/-- `GateCompiler.compile` sets `self.global_phase = 0.0` before the gate loop -/")
    L.append(f"def compileResetsPhase : Bool := {'true' if c['resets'] else 'false'}\n")
    L.append("/-- `GateCompiler.compile` keeps only instructions with `ins.duration != 0` (fixes/C06-2.patch) -/")
    L.append(f"def dropsZeroDuration : Bool := {'true' if c['drops'] else 'false'}\n")
    L.append("/-- `ModelProcessor.load_circuit` accepts `compile(...) = (None, None)`: clears the pulses instead of\n"
             "`set_coeffs(None)` raising ValueError (fixes/C06-1.patch) -/")
    L.append(f"def loadsEmpty : Bool := {'true' if m['empty_ok'] else 'false'}\n")
    L.append("/-- `SpinChain.load_circuit`: `self.global_phase = compiler.global_phase` -/")
    L.append(f"def handsBackPhase : Bool := {'true' if m['hands'] else 'false'}\n")
    L.append("/-! ## `SpinChainModel` -/\n")
    for k in ("sx", "sz", "sxsy"):
        f = m["defaults"][k]
        L.append(f"def default_{k} : Int × Nat := ({f.numerator}, {f.denominator})")
    L.append("")
    L.append("/-- `_get_num_coupling` -/")
    L.append(f"def numCoupling (circular : Bool) (N : Int) : Int := if circular then {m['ncc']} else {m['ncl']}\n")
    names = ["A", "B", "G"]
    for nm, ctl in zip(names, m["controls"]):
        L.append(f"/-- `controls[\"{ctl['prefix']}\" + str(n)] = (<coefficient> * <operator>, <qubits>)` -/")
        L.append(f'def ctl{nm}_prefix : String := "{ctl["prefix"]}"')
        L.append(f"def ctl{nm}_coef (pi : α) : α :=\n  {ctl['coef']}")
        if ctl["kind"] == "single":
            L.append(f"def ctl{nm}_op : Pauli := .{ctl['op']}")
            L.append(f"def ctl{nm}_qubit (N n : Int) : Int := {ctl['qubits'][0]}\n")
        else:
            L.append(f"def ctl{nm}_terms : List (Int × Pauli × Pauli) := [" +
                     ", ".join(f"({s}, .{a}, .{b})" for s, a, b in ctl["op"]) + "]")
            L.append(f"def ctl{nm}_qubits (N n : Int) : Int × Int := ({ctl['qubits'][0]}, {ctl['qubits'][1]})\n")
    L.append("end QipVerif.Gen.SC\n")
    info = dict(gates=[g for g, _ in c["rules"]], rules=dict(c["rules"]), exch_area=c["exch_area"],
                resets=c["resets"], hands=m["hands"], defaults=m["defaults"], drops=c["drops"], empty_ok=m["empty_ok"])
    return "\n".join(L), info


def regenerate():
    text, info = render()
    old = open(OUT).read() if os.path.exists(OUT) else None
    if old != text:
        with open(OUT, "w") as f:
            f.write(text)
    return info
