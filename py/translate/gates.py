"""AST translator: /repo/src/qutip_qip/operations/gates.py  ->  lean/QipVerif/Gen/GateDefs.lean

Every gate function whose compact matrix is a literal (entries are expressions in
np.cos / np.sin / np.exp / np.sqrt / np.pi / 1j / numbers / the parameters) is translated to a
Lean definition over ℂ, parameters being real numbers.  Also extracted: the name -> function
chain of `Gate.get_compact_qobj` and, for every gate class of gateclass.py, the function its
`get_compact_qobj` returns, plus GATE_CLASS_MAP — as Lean tables of call specifications.
Class methods that return a literal matrix themselves (RZX) and the function `cphase`, which builds its
result as `tensor(list1) + tensor(list2)`, are translated into Gen/GateExtra.lean (the latter by evaluating the
straight-line construction on its default arguments N=2, control=0, target=1 — the only way both lookup paths
call it).  Gen/GatePaths.lean gets one `path_<NAME>` theorem for EVERY name both paths offer (a name that cannot
be translated is a TranslatorError, not a silent skip) and the name sets of the paths.
The package is NOT imported: the source text of the working tree is parsed with `ast`."""
import ast, os
from fractions import Fraction

from vlib.core import TranslatorError
from vlib.paths import LEAN, REPO

FUNCS = ["x_gate", "y_gate", "cy_gate", "z_gate", "cz_gate", "s_gate", "cs_gate", "t_gate", "ct_gate",
         "rx", "ry", "rz", "sqrtnot", "snot", "phasegate", "qrot", "qasmu_gate", "cnot", "csign", "berkeley",
         "swapalpha", "swap", "iswap", "sqrtswap", "sqrtiswap", "molmer_sorensen", "fredkin", "toffoli"]
SKIP_ARGS = {"N", "target", "targets", "control", "controls"}
QUTIP_CONST = {"sigmax": ("2", "!![0, 1; 1, 0]"), "sigmay": ("2", "!![0, -Complex.I; Complex.I, 0]"),
               "sigmaz": ("2", "!![1, 0; 0, -1]")}
# qutip constructors with literal arguments used by list-built gates: (call, args) -> (dim, ℂ term, float term)
BUILT_CONST = {("identity", (2,)): (2, "(1 : Matrix (Fin 2) (Fin 2) ℂ)", "CF.ident2"),
               ("qeye", (2,)): (2, "(1 : Matrix (Fin 2) (Fin 2) ℂ)", "CF.ident2"),
               ("fock_dm", (2, 0)): (2, "(!![1, 0; 0, 0] : Matrix (Fin 2) (Fin 2) ℂ)", "CF.fock0"),
               ("fock_dm", (2, 1)): (2, "(!![0, 0; 0, 1] : Matrix (Fin 2) (Fin 2) ℂ)", "CF.fock1")}
BUILT_FUNCS = ["cphase"]


class Tr:
    """mode 'C': noncomputable ℂ terms (theorems);  mode 'F': computable complex floats (translator validation)."""

    def __init__(self, params, known, mode="C", env=None):
        self.params = params
        self.known = known   # name -> (dim, param names) of already translated functions
        self.mode = mode
        self.env = env or {}  # local scalar assignments `c = np.cos(theta / 2)` of the function body (inlined)

    def num(self, v):
        if self.mode == "F":
            if isinstance(v, bool):
                raise TranslatorError("bool literal")
            if isinstance(v, (int, float)):
                fr = Fraction(v)
                return f"(CF.ofRat ({fr.numerator}) {fr.denominator})"
            if isinstance(v, complex) and v.real == 0:
                fr = Fraction(v.imag)
                return f"(CF.I * CF.ofRat ({fr.numerator}) {fr.denominator})"
            raise TranslatorError(f"literal {v!r}")
        if isinstance(v, bool):
            raise TranslatorError("bool literal")
        if isinstance(v, int):
            return f"({v} : ℂ)"
        if isinstance(v, float):
            fr = Fraction(v)
            if fr.denominator > 4096:
                raise TranslatorError(f"non-dyadic float literal {v}")
            return f"(({fr.numerator} : ℂ) / {fr.denominator})" if fr.denominator != 1 else f"({fr.numerator} : ℂ)"
        if isinstance(v, complex):
            if v.real != 0:
                raise TranslatorError("complex literal with real part")
            im = Fraction(v.imag)
            if im == 1:
                return "Complex.I"
            return f"(({im.numerator} : ℂ) / {im.denominator} * Complex.I)"
        raise TranslatorError(f"literal {v!r}")

    def scalar(self, e):
        if isinstance(e, ast.Constant):
            return self.num(e.value)
        if isinstance(e, ast.Name):
            if e.id in self.params:
                return f"({e.id} : ℂ)" if self.mode == "C" else f"(CF.ofReal {e.id})"
            if e.id in self.env:
                return self.scalar(self.env[e.id])
            raise TranslatorError(f"unknown name {e.id}")
        if isinstance(e, ast.Attribute) and isinstance(e.value, ast.Name) and e.value.id == "np" and e.attr == "pi":
            return "(Real.pi : ℂ)" if self.mode == "C" else "CF.pi"
        if isinstance(e, ast.UnaryOp) and isinstance(e.op, ast.USub):
            return f"(-{self.scalar(e.operand)})"
        if isinstance(e, ast.BinOp):
            op = {ast.Add: "+", ast.Sub: "-", ast.Mult: "*", ast.Div: "/"}.get(type(e.op))
            if op is None:
                raise TranslatorError("operator " + type(e.op).__name__)
            return f"({self.scalar(e.left)} {op} {self.scalar(e.right)})"
        if isinstance(e, ast.Call) and isinstance(e.func, ast.Attribute) and isinstance(e.func.value, ast.Name) \
                and e.func.value.id == "np" and len(e.args) == 1:
            f = e.func.attr
            if f in ("cos", "sin", "exp"):
                return f"({'Complex' if self.mode == 'C' else 'CF'}.{f} {self.scalar(e.args[0])})"
            if f in ("conj", "conjugate"):
                return (f"((starRingEnd ℂ) {self.scalar(e.args[0])})" if self.mode == "C"
                        else f"(CF.conj {self.scalar(e.args[0])})")
            if f == "sqrt":
                a = e.args[0]
                if isinstance(a, ast.Constant) and float(a.value) == int(a.value) and a.value >= 0:
                    return (f"((Real.sqrt {int(a.value)} : ℝ) : ℂ)" if self.mode == "C"
                            else f"(CF.ofReal (Float.sqrt {int(a.value)}))")
                raise TranslatorError("sqrt of a non-literal")
        raise TranslatorError("scalar expression " + ast.dump(e)[:80])

    def matrix_literal(self, e):
        if isinstance(e, ast.Call) and isinstance(e.func, ast.Attribute) and e.func.attr == "array":
            e = e.args[0]
        if not isinstance(e, ast.List) or not all(isinstance(r, ast.List) for r in e.elts):
            raise TranslatorError("matrix literal expected")
        n = len(e.elts)
        if any(len(r.elts) != n for r in e.elts) or n not in (2, 4, 8):
            raise TranslatorError("matrix literal is not 2x2, 4x4 or 8x8")
        rows = [", ".join(self.scalar(x) for x in r.elts) for r in e.elts]
        if self.mode == "F":
            return n, "[" + ",\n      ".join("[" + r + "]" for r in rows) + "]"
        return n, "!![" + ";\n      ".join(rows) + "]"

    def matrix(self, e):
        """-> (dim, lean term) for a matrix-valued expression"""
        if isinstance(e, ast.Call):
            fn = e.func.id if isinstance(e.func, ast.Name) else None
            if fn == "Qobj":
                a = e.args[0]
                if isinstance(a, (ast.List,)) or (isinstance(a, ast.Call) and isinstance(a.func, ast.Attribute)):
                    return self.matrix_literal(a)
                return self.matrix(a)
            if fn in QUTIP_CONST and not e.args:
                d, t = QUTIP_CONST[fn]
                if self.mode == "F":
                    return int(d), "CF." + fn
                return int(d), f"({t} : Matrix (Fin {d}) (Fin {d}) ℂ)"
            if fn in self.known:
                d, ps = self.known[fn]
                args = []
                for a in e.args:
                    if isinstance(a, ast.Name) and a.id in self.params:
                        args.append(a.id)
                    else:
                        raise TranslatorError("call argument is not a parameter")
                if len(args) != len(ps):
                    raise TranslatorError(f"call of {fn} with {len(args)} arguments")
                return d, "(" + " ".join([fn + "_"] + args) + ")"
        if isinstance(e, ast.BinOp) and isinstance(e.op, ast.Mult):
            # scalar * matrix   or   matrix * matrix
            try:
                dl, l = self.matrix(e.left)
            except TranslatorError:
                s = self.scalar(e.left)
                d, m = self.matrix(e.right)
                return d, (f"({s} • {m})" if self.mode == "C" else f"(CF.smul {s} {m})")
            dr, r = self.matrix(e.right)
            if dl != dr:
                raise TranslatorError("product of matrices of different size")
            return dl, (f"({l} * {r})" if self.mode == "C" else f"(CF.mmul {l} {r})")
        raise TranslatorError("matrix expression " + ast.dump(e)[:80])


def parse_functions(src):
    tree = ast.parse(src)
    return {n.name: n for n in tree.body if isinstance(n, ast.FunctionDef)}


def translate_gates():
    path = os.path.join(REPO, "src", "qutip_qip", "operations", "gates.py")
    fns = parse_functions(open(path).read())
    known, defs, defsF = {}, [], []
    order = [f for f in FUNCS if f not in ("qasmu_gate",)] + ["qasmu_gate"]
    for name in order:
        fn = fns.get(name)
        if fn is None:
            raise TranslatorError(f"gate function {name} not found in gates.py")
        params = [a.arg for a in fn.args.args if a.arg not in SKIP_ARGS]
        body = list(fn.body)
        # `theta, phi, gamma = args`
        unpack = None
        for st in body:
            if isinstance(st, ast.Assign) and isinstance(st.targets[0], ast.Tuple) and isinstance(st.value, ast.Name) \
                    and st.value.id in params:
                unpack = (st.value.id, [e.id for e in st.targets[0].elts])
        if unpack:
            params = [p for p in params if p != unpack[0]] + unpack[1]
        rets = [st for st in body if isinstance(st, ast.Return)]
        if not rets:
            raise TranslatorError(f"{name}: no top-level return")
        env = {}
        for st in body:   # simple local definitions at the top level of the body are inlined
            if isinstance(st, ast.Assign) and len(st.targets) == 1 and isinstance(st.targets[0], ast.Name) \
                    and st.targets[0].id not in params:
                env[st.targets[0].id] = st.value
        d, term = Tr(params, known, "C", env).matrix(rets[-1].value)
        _, termF = Tr(params, known, "F", env).matrix(rets[-1].value)
        known[name] = (d, params)
        sig = "".join(f" ({p} : ℝ)" for p in params)
        defs.append(f"noncomputable def {name}_{sig} : Matrix (Fin {d}) (Fin {d}) ℂ :=\n  {term}\n")
        sigF = "".join(f" ({p} : Float)" for p in params)
        defsF.append(f"def {name}_{sigF} : List (List CF) :=\n  {termF}\n")
    return known, defs, defsF


def translate_built(fn, known, mode):
    """A gate function that builds its result as `L = [identity(2)] * N; L[i] = …; return tensor(L1) + tensor(L2)`
    (cphase): the straight-line construction is evaluated on the DEFAULT values of its integer arguments
    (N=2, control=0, target=1 — the canonical call both lookup paths make).  Guards (`if …: raise / warn`) must be
    false on those values.  -> (dim, params, term)"""
    args, defaults = fn.args.args, fn.args.defaults
    nreq = len(args) - len(defaults)
    params = [a.arg for a in args[:nreq]]
    consts = {}
    for a, d in zip(args[nreq:], defaults):
        if isinstance(d, ast.Constant) and isinstance(d.value, int) and not isinstance(d.value, bool):
            consts[a.arg] = d.value
        else:
            raise TranslatorError(f"{fn.name}: default of {a.arg} is not an integer literal")
    tr = Tr(params, known, mode)
    env = {}

    def cint(e):
        if isinstance(e, ast.Constant) and isinstance(e.value, int) and not isinstance(e.value, bool):
            return e.value
        if isinstance(e, ast.Name) and e.id in consts:
            return consts[e.id]
        raise TranslatorError(f"{fn.name}: integer expression " + ast.dump(e)[:60])

    def ctest(e):
        if isinstance(e, ast.BoolOp):
            vs = [ctest(v) for v in e.values]
            return any(vs) if isinstance(e.op, ast.Or) else all(vs)
        if isinstance(e, ast.Compare) and len(e.ops) == 1:
            a, b = cint(e.left), cint(e.comparators[0])
            op = type(e.ops[0])
            table = {ast.Eq: a == b, ast.NotEq: a != b, ast.Lt: a < b, ast.LtE: a <= b, ast.Gt: a > b, ast.GtE: a >= b}
            if op in table:
                return table[op]
        raise TranslatorError(f"{fn.name}: guard " + ast.dump(e)[:60])

    def mat(e):
        if isinstance(e, ast.Name) and e.id in env and env[e.id][0] == "mat":
            return env[e.id][1], env[e.id][2]
        if isinstance(e, ast.BinOp) and isinstance(e.op, ast.Add):
            (dl, l), (dr, r) = mat(e.left), mat(e.right)
            if dl != dr:
                raise TranslatorError(f"{fn.name}: sum of matrices of different size")
            return dl, (f"({l} + {r})" if mode == "C" else f"(CF.madd {l} {r})")
        if isinstance(e, ast.Call) and isinstance(e.func, ast.Name):
            f = e.func.id
            if f == "tensor" and len(e.args) == 1 and isinstance(e.args[0], ast.Name) \
                    and env.get(e.args[0].id, ("",))[0] == "list":
                items = env[e.args[0].id][1]
                if len(items) != 2 or any(d != 2 for d, _ in items):
                    raise TranslatorError(f"{fn.name}: tensor of other than two qubits")
                (_, a), (_, b) = items
                return 4, (f"(QipVerif.GateKron.kron2 {a} {b})" if mode == "C" else f"(CF.kron2 {a} {b})")
            if all(isinstance(a, ast.Constant) for a in e.args) and (f, tuple(a.value for a in e.args)) in BUILT_CONST:
                d, c, fl = BUILT_CONST[(f, tuple(a.value for a in e.args))]
                return d, (c if mode == "C" else fl)
        return tr.matrix(e)

    result = None
    for st in fn.body:
        if isinstance(st, ast.Expr) and isinstance(st.value, ast.Constant):
            continue                                               # docstring
        if isinstance(st, ast.If):
            if ctest(st.test) or st.orelse:
                raise TranslatorError(f"{fn.name}: a guard holds on the canonical arguments")
            continue
        if isinstance(st, ast.Assign) and len(st.targets) == 1:
            t, v = st.targets[0], st.value
            if isinstance(t, ast.Name) and isinstance(v, ast.BinOp) and isinstance(v.op, ast.Mult) \
                    and isinstance(v.left, ast.List) and len(v.left.elts) == 1:
                env[t.id] = ("list", [mat(v.left.elts[0])] * cint(v.right))
                continue
            if isinstance(t, ast.Subscript) and isinstance(t.value, ast.Name) and env.get(t.value.id, ("",))[0] == "list":
                items = list(env[t.value.id][1])
                i = cint(t.slice)
                if not 0 <= i < len(items):
                    raise TranslatorError(f"{fn.name}: list index out of range")
                items[i] = mat(v)
                env[t.value.id] = ("list", items)
                continue
            if isinstance(t, ast.Name):
                d, m = mat(v)
                env[t.id] = ("mat", d, m)
                continue
        if isinstance(st, ast.Return):
            result = mat(st.value)
            break
        raise TranslatorError(f"{fn.name}: statement " + ast.dump(st)[:80])
    if result is None:
        raise TranslatorError(f"{fn.name}: no return")
    return result[0], params, result[1]


def class_literal(cls_name, m, known, mode):
    """`get_compact_qobj` of a gate class that returns a literal matrix in `self.arg_value` (RZX)
    -> (dim, params, argument spec, term)"""
    params, argspec, env = [], "arg", {}
    for st in m.body:
        if isinstance(st, ast.Expr) and isinstance(st.value, ast.Constant):
            continue
        if isinstance(st, ast.Assign) and len(st.targets) == 1:
            t, v = st.targets[0], st.value
            is_arg = isinstance(v, ast.Attribute) and v.attr == "arg_value" and isinstance(v.value, ast.Name) \
                and v.value.id == "self"
            if is_arg and isinstance(t, ast.Name):
                params, argspec = [t.id], "arg"
                continue
            if is_arg and isinstance(t, ast.Tuple) and all(isinstance(x, ast.Name) for x in t.elts):
                params, argspec = [x.id for x in t.elts], "*arg"
                continue
            if isinstance(t, ast.Name):
                env[t.id] = v
                continue
        if isinstance(st, ast.Return):
            d, term = Tr(params, known, mode, env).matrix(st.value)
            return d, params, argspec, term
        raise TranslatorError(f"class {cls_name}: statement " + ast.dump(st)[:80])
    raise TranslatorError(f"class {cls_name}: no return")


def translate_extra(known):
    """list-built gate functions (cphase) and literal class methods (RZX) -> definitions for Gen/GateExtra.lean and
    GateDefsF.lean; extends `known`"""
    path = os.path.join(REPO, "src", "qutip_qip", "operations", "gates.py")
    fns = parse_functions(open(path).read())
    defs, defsF, extra = [], [], {}
    for name in BUILT_FUNCS:
        fn = fns.get(name)
        if fn is None:
            raise TranslatorError(f"gate function {name} not found in gates.py")
        d, params, term = translate_built(fn, known, "C")
        _, _, termF = translate_built(fn, known, "F")
        extra[name] = (d, params, "fn")
        defs.append((name, d, params, term))
        defsF.append((name, params, termF))
    path = os.path.join(REPO, "src", "qutip_qip", "operations", "gateclass.py")
    tree = ast.parse(open(path).read())
    lit_specs = {}
    for node in tree.body:
        if not isinstance(node, ast.ClassDef) or node.name == "Gate":
            continue
        for m in node.body:
            if isinstance(m, ast.FunctionDef) and m.name == "get_compact_qobj":
                r = m.body[-1]
                if isinstance(r, ast.Return) and isinstance(r.value, ast.Call) and isinstance(r.value.func, ast.Name) \
                        and r.value.func.id == "Qobj":
                    d, params, argspec, term = class_literal(node.name, m, known, "C")
                    _, _, _, termF = class_literal(node.name, m, known, "F")
                    fname = "cls_" + node.name
                    extra[fname] = (d, params, "cls")
                    lit_specs[node.name] = f"{fname}({argspec})"
                    defs.append((fname, d, params, term))
                    defsF.append((fname, params, termF))
    out, outF = [], []
    for name, d, params, term in defs:
        sig = "".join(f" ({p} : ℝ)" for p in params)
        out.append(f"noncomputable def {name}_{sig} : Matrix (Fin {d}) (Fin {d}) ℂ :=\n  {term}\n")
    for name, params, termF in defsF:
        sigF = "".join(f" ({p} : Float)" for p in params)
        outF.append(f"def {name}_{sigF} : List (List CF) :=\n  {termF}\n")
    for k, (d, params, _) in extra.items():
        known[k] = (d, params)
    return out, outF, extra, lit_specs


def circuit_dispatch():
    """`QubitCircuit.add_gate(name, …)`: `GATE_CLASS_MAP[name]` if the name is in the map, else the generic `Gate`"""
    path = os.path.join(REPO, "src", "qutip_qip", "circuit", "circuit.py")
    tree = ast.parse(open(path).read())
    for node in ast.walk(tree):
        if isinstance(node, ast.FunctionDef) and node.name == "add_gate":
            for st in ast.walk(node):
                if isinstance(st, ast.If) and isinstance(st.test, ast.Compare) and len(st.test.ops) == 1 \
                        and isinstance(st.test.ops[0], ast.In) and isinstance(st.test.comparators[0], ast.Name) \
                        and st.test.comparators[0].id == "GATE_CLASS_MAP" and len(st.body) == 1 and len(st.orelse) == 1:
                    b, o = st.body[0], st.orelse[0]
                    ok = (isinstance(b, ast.Assign) and isinstance(b.value, ast.Subscript)
                          and isinstance(b.value.value, ast.Name) and b.value.value.id == "GATE_CLASS_MAP"
                          and isinstance(o, ast.Assign) and isinstance(o.value, ast.Name) and o.value.id == "Gate"
                          and isinstance(b.targets[0], ast.Name) and isinstance(o.targets[0], ast.Name)
                          and b.targets[0].id == o.targets[0].id)
                    if ok:
                        return "class-if-mapped-else-generic"
    raise TranslatorError("QubitCircuit.add_gate: dispatch on GATE_CLASS_MAP not recognised")


def name_chain(lit_specs=None):
    """`if self.name == "RX": qobj = rx(self.arg_value)` chain of Gate.get_compact_qobj -> {name: call spec};
    the chain must end in `else: raise` (every other name is refused)"""
    path = os.path.join(REPO, "src", "qutip_qip", "operations", "gateclass.py")
    tree = ast.parse(open(path).read())
    out, classes, class_map = {}, {}, {}
    lit_specs = lit_specs or {}

    def callspec(e):
        # function name + how the arguments are taken from the gate
        if isinstance(e, ast.IfExp):                      # `a if not is_qutip5 else a(dtype=..)`
            return callspec(e.body)
        if isinstance(e, ast.Call) and isinstance(e.func, ast.Attribute):
            if e.func.attr == "tidyup":                    # cphase(..).tidyup()
                return callspec(e.func.value)
            if isinstance(e.func.value, ast.Name) and e.func.value.id == "qutip" and e.func.attr in QUTIP_CONST:
                return e.func.attr + "()"
        if isinstance(e, ast.Call) and isinstance(e.func, ast.Name):
            f = e.func.id
            args = []
            for a in e.args:
                if isinstance(a, ast.Attribute) and a.attr == "arg_value":
                    args.append("arg")
                elif isinstance(a, ast.Starred) and isinstance(a.value, ast.Attribute) and a.value.attr == "arg_value":
                    args.append("*arg")
                elif isinstance(a, ast.Call):
                    args.append(callspec(a))
                elif isinstance(a, ast.Constant):
                    args.append(repr(a.value))
                else:
                    raise TranslatorError("unrecognised argument in a gate call")
            return f + "(" + ",".join(args) + ")"
        raise TranslatorError("unrecognised call in get_compact_qobj")

    for node in tree.body:
        if isinstance(node, ast.ClassDef):
            for m in node.body:
                if isinstance(m, ast.FunctionDef) and m.name == "get_compact_qobj":
                    if node.name == "Gate":
                        st = m.body[-2] if isinstance(m.body[-1], ast.Return) else m.body[-1]
                        # walk the if/elif chain
                        cur = next(s for s in m.body if isinstance(s, ast.If))
                        while True:
                            t = cur.test
                            if not (isinstance(t, ast.Compare) and isinstance(t.left, ast.Attribute) and t.left.attr == "name"):
                                raise TranslatorError("get_compact_qobj chain: unexpected test")
                            nm = t.comparators[0].value
                            b = cur.body[0]
                            if isinstance(b, ast.Assign):
                                out[nm] = callspec(b.value)
                            else:
                                out[nm] = "raise"
                            if len(cur.orelse) == 1 and isinstance(cur.orelse[0], ast.If):
                                cur = cur.orelse[0]
                            else:
                                if not (len(cur.orelse) == 1 and isinstance(cur.orelse[0], ast.Raise)):
                                    raise TranslatorError("get_compact_qobj chain: the final else does not raise")
                                break
                    else:
                        r = m.body[-1]
                        if isinstance(r, ast.Return):
                            try:
                                classes[node.name] = callspec(r.value)
                            except TranslatorError:
                                classes[node.name] = lit_specs.get(node.name, "special")
        if isinstance(node, ast.Assign) and isinstance(node.targets[0], ast.Name):
            tn = node.targets[0].id
            if tn == "GATE_CLASS_MAP":
                for k, v in zip(node.value.keys, node.value.values):
                    class_map[k.value] = v.id
            elif isinstance(node.value, ast.Name) and node.value.id in classes:
                classes[tn] = classes[node.value.id]          # SNOT = H
            elif isinstance(node.value, ast.Call) and isinstance(node.value.func, ast.Name) and node.value.func.id == "partial":
                tg = [k.value.id for k in node.value.keywords if k.arg == "target_gate"]
                if tg:
                    classes[tn] = f"controlled_gate({classes.get(tg[0], '?')})"
    return out, classes, class_map


def ctrl_compat():
    """`controlled_gate`: the two compatibility lines `if not isinstance(X, Iterable): controls = [controls]` and
    `if not isinstance(Y, Iterable): targets = [targets]` -> (X, Y) (the source has X = Y = "targets")"""
    path = os.path.join(REPO, "src", "qutip_qip", "operations", "gates.py")
    fn = parse_functions(open(path).read()).get("controlled_gate")
    if fn is None:
        raise TranslatorError("controlled_gate not found in gates.py")
    found = {}
    for st in fn.body:
        if isinstance(st, ast.If) and isinstance(st.test, ast.UnaryOp) and isinstance(st.test.op, ast.Not) \
                and isinstance(st.test.operand, ast.Call) and isinstance(st.test.operand.func, ast.Name) \
                and st.test.operand.func.id == "isinstance" and len(st.test.operand.args) == 2 \
                and isinstance(st.test.operand.args[0], ast.Name) and isinstance(st.test.operand.args[1], ast.Name) \
                and st.test.operand.args[1].id == "Iterable" and len(st.body) == 1 and not st.orelse:
            b = st.body[0]
            if isinstance(b, ast.Assign) and isinstance(b.targets[0], ast.Name) and isinstance(b.value, ast.List) \
                    and len(b.value.elts) == 1 and isinstance(b.value.elts[0], ast.Name) \
                    and b.value.elts[0].id == b.targets[0].id and b.targets[0].id not in found:
                found[b.targets[0].id] = st.test.operand.args[0].id
    if set(found) != {"controls", "targets"} or found["targets"] != "targets" or found["controls"] not in ("controls", "targets"):
        raise TranslatorError(f"controlled_gate: compatibility lines not recognised ({found})")
    return found["controls"], found["targets"]


def renderF(known, defsF):
    L = ["import QipVerif.Num.CF",
         "/-! GENERATED by py/translate/gates.py — the same gate functions as Gen/GateDefs.lean, rendered from the same",
         "syntax trees as computable complex-float matrices; used only to validate the translator against the code. -/",
         "namespace QipVerif.Gen.GF\nopen QipVerif\n"]
    L += defsF
    L.append("def eval (fn : String) (a : List Float) : Option (List (List CF)) :=")
    L.append("  match fn, a with")
    for name, (d, ps) in known.items():
        pat = "[" + ", ".join(f"a{i}" for i in range(len(ps))) + "]"
        L.append(f'  | "{name}", {pat} => some ({" ".join([name + "_"] + [f"a{i}" for i in range(len(ps))])})')
    L.append("  | _, _ => none\n")
    L.append("/-- `controlled_gate`: the argument tested by `isinstance(·, Iterable)` before `controls = [controls]` -/")
    L.append(f'def ctrlCompatTest : String := "{ctrl_compat()[0]}"\n')
    L.append("end QipVerif.Gen.GF")
    return "\n".join(L) + "\n"


def render_extra(defsX, lit_specs):
    L = ["import QipVerif.Gen.GateDefs",
         "import QipVerif.Lemmas.GateKron",
         "/-! GENERATED by py/translate/gates.py from /repo/src/qutip_qip/operations/{gates,gateclass}.py — do not edit.",
         "Gates that are not a literal matrix in a gate function: `cphase` (built as tensor(list1) + tensor(list2),",
         "evaluated on its default arguments N=2, control=0, target=1) and gate classes whose `get_compact_qobj`",
         "returns a literal matrix itself (`cls_<Class>_`). -/",
         "namespace QipVerif.Gen.G\n"]
    L += defsX
    L.append("/-- gate classes listed as \"special\" in `classPath`: class ↦ call specification of its literal matrix -/")
    L.append("def classLiteral : List (String × String) :=\n  [" +
             ",\n   ".join(f'("{k}", "{v}")' for k, v in lit_specs.items()) + "]\n")
    L.append("end QipVerif.Gen.G")
    return "\n".join(L) + "\n"


def render():
    known, defs, defsF = translate_gates()
    defsX, defsXF, extra, lit_specs = translate_extra(known)
    defsF = defsF + defsXF
    chain, classes, class_map = name_chain(lit_specs)
    render.extra_src = render_extra(defsX, lit_specs)
    render.extra = extra
    render.dispatch = circuit_dispatch()
    L = ["import Mathlib.Analysis.SpecialFunctions.Trigonometric.Basic",
         "import Mathlib.Analysis.SpecialFunctions.Sqrt",
         "import Mathlib.LinearAlgebra.Matrix.Notation",
         "/-! GENERATED by py/translate/gates.py from /repo/src/qutip_qip/operations/{gates,gateclass}.py — do not edit.",
         "Gate functions as matrices over ℂ (real parameters); name → call tables of the two lookup paths. -/",
         "namespace QipVerif.Gen.G\n"]
    L += defs
    L.append("/-- `Gate(name).get_compact_qobj()`: name ↦ call specification -/")
    L.append("def genericPath : List (String × String) :=\n  [" +
             ",\n   ".join(f'("{k}", "{v}")' for k, v in chain.items()) + "]\n")
    L.append("/-- `GATE_CLASS_MAP[name](…).get_compact_qobj()`: name ↦ call specification of the class -/")
    L.append("def classPath : List (String × String) :=\n  [" +
             ",\n   ".join(f'("{k}", "{table_spec(classes.get(v, "?"))}")' for k, v in class_map.items()) + "]\n")
    L.append("end QipVerif.Gen.G")
    return "\n".join(L) + "\n", renderF(known, defsF), known, chain, classes, class_map


def table_spec(spec):
    """in the table of Gen/GateDefs.lean a class with a literal matrix is listed as "special"; its definition and call
    specification are in Gen/GateExtra.lean (`classLiteral`)"""
    return "special" if spec.startswith("cls_") else spec


def spec_to_lean(spec, known, alias):
    """call specification -> (lean term, number of real parameters) or None if not translatable"""
    spec = alias.get(spec, spec)
    if spec.endswith("()") and spec[:-2] in QUTIP_CONST:
        d, t = QUTIP_CONST[spec[:-2]]
        return f"({t} : Matrix (Fin {d}) (Fin {d}) ℂ)", 0, int(d)
    if spec.startswith("controlled_gate(") and spec.endswith(")"):
        inner = spec_to_lean(spec[len("controlled_gate("):-1], known, alias)
        if inner is None or inner[2] != 2:
            return None
        return f"(ctrl {inner[0]})", inner[1], 4
    name, _, rest = spec.partition("(")
    args = rest[:-1]
    if name in known:
        d, ps = known[name]
        if args == "" and not ps:
            return f"{name}_", 0, d
        if args in ("arg", "*arg") and ps:
            return "(" + " ".join([name + "_"] + [f"a{i}" for i in range(len(ps))]) + ")", len(ps), d
    return None


def render_paths(known, chain, classes, class_map, dispatch):
    alias = {}
    L = ["import QipVerif.Gen.GateDefs", "import QipVerif.Gen.GateExtra", "import QipVerif.Lemmas.GatePathTac",
         "/-! GENERATED by py/translate/gates.py — for every gate name offered both by `Gate(name)` and by",
         "`GATE_CLASS_MAP[name]`, the two paths denote the same matrix for all parameter values; the names both paths",
         "offer (`sharedNames`, checked against the tables) and the dispatch rule of `QubitCircuit.add_gate`. -/",
         "namespace QipVerif.Gen.G\nopen QipVerif.GatePath\n"]
    names, shared = [], []
    for name, cls in class_map.items():
        c = classes.get(cls)
        if c in (None, "special", "?"):
            raise TranslatorError(f"GATE_CLASS_MAP[{name!r}] = {cls}: get_compact_qobj of the class is not recognised")
        g = chain.get(name)
        if g is None or g == "raise":
            continue
        a = spec_to_lean(g, known, alias)
        b = spec_to_lean(c, known, alias)
        if a is None or b is None or a[1] != b[1] or a[2] != b[2]:
            raise TranslatorError(f"gate {name}: offered by both lookup paths but not translatable "
                                  f"(generic {g!r}, class {c!r})")
        ident = "".join(ch if ch.isalnum() else "_" for ch in name)
        sig = "".join(f" (a{i} : ℝ)" for i in range(a[1]))
        L.append(f"theorem path_{ident}{sig} : {a[0]} = {b[0]} := by gate_path_tac\n")
        names.append(f"QipVerif.Gen.G.path_{ident}")
        shared.append(name)
    L.append("/-- the names for which a `path_*` theorem above was generated -/")
    L.append("def sharedNames : List String :=\n  [" + ", ".join(f'"{n}"' for n in shared) + "]\n")
    L.append("/-- `sharedNames` are exactly the names of the class table that the generic chain resolves to a matrix -/")
    L.append("theorem shared_names_complete :\n    (classPath.filter fun p => match genericPath.lookup p.1 with\n"
             "      | some s => s != \"raise\"\n      | none => false).map Prod.fst = sharedNames := by decide\n")
    names.append("QipVerif.Gen.G.shared_names_complete")
    L.append("/-- `QubitCircuit.add_gate(name, …)` builds `GATE_CLASS_MAP[name](…)` when the name is in the map and the generic\n"
             "`Gate(name, …)` otherwise (extracted from circuit.py) -/")
    L.append(f'def circuitDispatch : String := "{dispatch}"\n')
    L.append("end QipVerif.Gen.G")
    return "\n".join(L) + "\n", names, []


def regenerate():
    from translate.decomp import write_if_changed
    src, srcF, known, chain, classes, class_map = render()
    changed = write_if_changed(os.path.join(LEAN, "QipVerif", "Gen", "GateDefs.lean"), src)
    changed |= write_if_changed(os.path.join(LEAN, "QipVerif", "Gen", "GateDefsF.lean"), srcF)
    changed |= write_if_changed(os.path.join(LEAN, "QipVerif", "Gen", "GateExtra.lean"), render.extra_src)
    psrc, pnames, skipped = render_paths(known, chain, classes, class_map, render.dispatch)
    changed |= write_if_changed(os.path.join(LEAN, "QipVerif", "Gen", "GatePaths.lean"), psrc)
    regenerate.path_theorems = pnames
    regenerate.path_skipped = skipped
    regenerate.extra = render.extra
    return changed, known, chain, classes, class_map
