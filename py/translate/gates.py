"""AST translator: /repo/src/qutip_qip/operations/gates.py  ->  lean/QipVerif/Gen/GateDefs.lean

Every gate function whose compact matrix is a literal (entries are expressions in
np.cos / np.sin / np.exp / np.sqrt / np.pi / 1j / numbers / the parameters) is translated to a
Lean definition over ℂ, parameters being real numbers.  Also extracted: the name -> function
chain of `Gate.get_compact_qobj` and, for every gate class of gateclass.py, the function its
`get_compact_qobj` returns, plus GATE_CLASS_MAP — as Lean tables of call specifications.
The package is NOT imported: the source text of the working tree is parsed with `ast`."""
import ast, os
from fractions import Fraction

from vlib.core import TranslatorError
from vlib.paths import LEAN, REPO

FUNCS = ["x_gate", "y_gate", "cy_gate", "z_gate", "cz_gate", "s_gate", "cs_gate", "t_gate", "ct_gate",
         "rx", "ry", "rz", "sqrtnot", "snot", "phasegate", "qrot", "qasmu_gate", "cnot", "csign", "berkeley",
         "swapalpha", "swap", "iswap", "sqrtswap", "sqrtiswap", "molmer_sorensen", "fredkin", "toffoli"]
SKIP_ARGS = {"N", "target", "targets", "control", "controls"}
QUTIP_CONST = {"sigmax": ("2", "!![0, 1; 1, 0]"), "sigmay": ("2", "!![0, -Complex.I; Complex.I, 0]"),
               "sigmaz": ("2", "!![1, 0; 0, -1]")}


class Tr:
    """mode 'C': noncomputable ℂ terms (theorems);  mode 'F': computable complex floats (translator validation)."""

    def __init__(self, params, known, mode="C", env=None):
        self.params = params
        self.known = known   # name -> (dim, param names) of already translated functions
        self.mode = mode
        self.env = env or {}  # local scalar assignments `c = np.cos(theta / 2)` of the function body (inlined)

    def num(self, v):
        if self.mode == "F":
            if isinstance(v, bool):
                raise TranslatorError("bool literal")
            if isinstance(v, (int, float)):
                fr = Fraction(v)
                return f"(CF.ofRat ({fr.numerator}) {fr.denominator})"
            if isinstance(v, complex) and v.real == 0:
                fr = Fraction(v.imag)
                return f"(CF.I * CF.ofRat ({fr.numerator}) {fr.denominator})"
            raise TranslatorError(f"literal {v!r}")
        if isinstance(v, bool):
            raise TranslatorError("bool literal")
        if isinstance(v, int):
            return f"({v} : ℂ)"
        if isinstance(v, float):
            fr = Fraction(v)
            if fr.denominator > 4096:
                raise TranslatorError(f"non-dyadic float literal {v}")
            return f"(({fr.numerator} : ℂ) / {fr.denominator})" if fr.denominator != 1 else f"({fr.numerator} : ℂ)"
        if isinstance(v, complex):
            if v.real != 0:
                raise TranslatorError("complex literal with real part")
            im = Fraction(v.imag)
            if im == 1:
                return "Complex.I"
            return f"(({im.numerator} : ℂ) / {im.denominator} * Complex.I)"
        raise TranslatorError(f"literal {v!r}")

    def scalar(self, e):
        if isinstance(e, ast.Constant):
            return self.num(e.value)
        if isinstance(e, ast.Name):
            if e.id in self.params:
                return f"({e.id} : ℂ)" if self.mode == "C" else f"(CF.ofReal {e.id})"
            if e.id in self.env:
                return self.scalar(self.env[e.id])
            raise TranslatorError(f"unknown name {e.id}")
        if isinstance(e, ast.Attribute) and isinstance(e.value, ast.Name) and e.value.id == "np" and e.attr == "pi":
            return "(Real.pi : ℂ)" if self.mode == "C" else "CF.pi"
        if isinstance(e, ast.UnaryOp) and isinstance(e.op, ast.USub):
            return f"(-{self.scalar(e.operand)})"
        if isinstance(e, ast.BinOp):
            op = {ast.Add: "+", ast.Sub: "-", ast.Mult: "*", ast.Div: "/"}.get(type(e.op))
            if op is None:
                raise TranslatorError("operator " + type(e.op).__name__)
            return f"({self.scalar(e.left)} {op} {self.scalar(e.right)})"
        if isinstance(e, ast.Call) and isinstance(e.func, ast.Attribute) and isinstance(e.func.value, ast.Name) \
                and e.func.value.id == "np" and len(e.args) == 1:
            f = e.func.attr
            if f in ("cos", "sin", "exp"):
                return f"({'Complex' if self.mode == 'C' else 'CF'}.{f} {self.scalar(e.args[0])})"
            if f in ("conj", "conjugate"):
                return (f"((starRingEnd ℂ) {self.scalar(e.args[0])})" if self.mode == "C"
                        else f"(CF.conj {self.scalar(e.args[0])})")
            if f == "sqrt":
                a = e.args[0]
                if isinstance(a, ast.Constant) and float(a.value) == int(a.value) and a.value >= 0:
                    return (f"((Real.sqrt {int(a.value)} : ℝ) : ℂ)" if self.mode == "C"
                            else f"(CF.ofReal (Float.sqrt {int(a.value)}))")
                raise TranslatorError("sqrt of a non-literal")
        raise TranslatorError("scalar expression " + ast.dump(e)[:80])

    def matrix_literal(self, e):
        if isinstance(e, ast.Call) and isinstance(e.func, ast.Attribute) and e.func.attr == "array":
            e = e.args[0]
        if not isinstance(e, ast.List) or not all(isinstance(r, ast.List) for r in e.elts):
            raise TranslatorError("matrix literal expected")
        n = len(e.elts)
        if any(len(r.elts) != n for r in e.elts) or n not in (2, 4, 8):
            raise TranslatorError("matrix literal is not 2x2, 4x4 or 8x8")
        rows = [", ".join(self.scalar(x) for x in r.elts) for r in e.elts]
        if self.mode == "F":
            return n, "[" + ",\n      ".join("[" + r + "]" for r in rows) + "]"
        return n, "!![" + ";\n      ".join(rows) + "]"

    def matrix(self, e):
        """-> (dim, lean term) for a matrix-valued expression"""
        if isinstance(e, ast.Call):
            fn = e.func.id if isinstance(e.func, ast.Name) else None
            if fn == "Qobj":
                a = e.args[0]
                if isinstance(a, (ast.List,)) or (isinstance(a, ast.Call) and isinstance(a.func, ast.Attribute)):
                    return self.matrix_literal(a)
                return self.matrix(a)
            if fn in QUTIP_CONST and not e.args:
                d, t = QUTIP_CONST[fn]
                if self.mode == "F":
                    return int(d), "CF." + fn
                return int(d), f"({t} : Matrix (Fin {d}) (Fin {d}) ℂ)"
            if fn in self.known:
                d, ps = self.known[fn]
                args = []
                for a in e.args:
                    if isinstance(a, ast.Name) and a.id in self.params:
                        args.append(a.id)
                    else:
                        raise TranslatorError("call argument is not a parameter")
                if len(args) != len(ps):
                    raise TranslatorError(f"call of {fn} with {len(args)} arguments")
                return d, "(" + " ".join([fn + "_"] + args) + ")"
        if isinstance(e, ast.BinOp) and isinstance(e.op, ast.Mult):
            # scalar * matrix   or   matrix * matrix
            try:
                dl, l = self.matrix(e.left)
            except TranslatorError:
                s = self.scalar(e.left)
                d, m = self.matrix(e.right)
                return d, (f"({s} • {m})" if self.mode == "C" else f"(CF.smul {s} {m})")
            dr, r = self.matrix(e.right)
            if dl != dr:
                raise TranslatorError("product of matrices of different size")
            return dl, (f"({l} * {r})" if self.mode == "C" else f"(CF.mmul {l} {r})")
        raise TranslatorError("matrix expression " + ast.dump(e)[:80])


def parse_functions(src):
    tree = ast.parse(src)
    return {n.name: n for n in tree.body if isinstance(n, ast.FunctionDef)}


def translate_gates():
    path = os.path.join(REPO, "src", "qutip_qip", "operations", "gates.py")
    fns = parse_functions(open(path).read())
    known, defs, defsF = {}, [], []
    order = [f for f in FUNCS if f not in ("qasmu_gate",)] + ["qasmu_gate"]
    for name in order:
        fn = fns.get(name)
        if fn is None:
            raise TranslatorError(f"gate function {name} not found in gates.py")
        params = [a.arg for a in fn.args.args if a.arg not in SKIP_ARGS]
        body = list(fn.body)
        # `theta, phi, gamma = args`
        unpack = None
        for st in body:
            if isinstance(st, ast.Assign) and isinstance(st.targets[0], ast.Tuple) and isinstance(st.value, ast.Name) \
                    and st.value.id in params:
                unpack = (st.value.id, [e.id for e in st.targets[0].elts])
        if unpack:
            params = [p for p in params if p != unpack[0]] + unpack[1]
        rets = [st for st in body if isinstance(st, ast.Return)]
        if not rets:
            raise TranslatorError(f"{name}: no top-level return")
        env = {}
        for st in body:   # simple local definitions at the top level of the body are inlined
            if isinstance(st, ast.Assign) and len(st.targets) == 1 and isinstance(st.targets[0], ast.Name) \
                    and st.targets[0].id not in params:
                env[st.targets[0].id] = st.value
        d, term = Tr(params, known, "C", env).matrix(rets[-1].value)
        _, termF = Tr(params, known, "F", env).matrix(rets[-1].value)
        known[name] = (d, params)
        sig = "".join(f" ({p} : ℝ)" for p in params)
        defs.append(f"noncomputable def {name}_{sig} : Matrix (Fin {d}) (Fin {d}) ℂ :=\n  {term}\n")
        sigF = "".join(f" ({p} : Float)" for p in params)
        defsF.append(f"def {name}_{sigF} : List (List CF) :=\n  {termF}\n")
    return known, defs, defsF


def name_chain():
    """`if self.name == "RX": qobj = rx(self.arg_value)` chain of Gate.get_compact_qobj -> {name: call spec}"""
    path = os.path.join(REPO, "src", "qutip_qip", "operations", "gateclass.py")
    tree = ast.parse(open(path).read())
    out, classes, class_map = {}, {}, {}

    def callspec(e):
        # function name + how the arguments are taken from the gate
        if isinstance(e, ast.IfExp):                      # `a if not is_qutip5 else a(dtype=..)`
            return callspec(e.body)
        if isinstance(e, ast.Call) and isinstance(e.func, ast.Attribute):
            if e.func.attr == "tidyup":                    # cphase(..).tidyup()
                return callspec(e.func.value)
            if isinstance(e.func.value, ast.Name) and e.func.value.id == "qutip" and e.func.attr in QUTIP_CONST:
                return e.func.attr + "()"
        if isinstance(e, ast.Call) and isinstance(e.func, ast.Name):
            f = e.func.id
            args = []
            for a in e.args:
                if isinstance(a, ast.Attribute) and a.attr == "arg_value":
                    args.append("arg")
                elif isinstance(a, ast.Starred) and isinstance(a.value, ast.Attribute) and a.value.attr == "arg_value":
                    args.append("*arg")
                elif isinstance(a, ast.Call):
                    args.append(callspec(a))
                elif isinstance(a, ast.Constant):
                    args.append(repr(a.value))
                else:
                    raise TranslatorError("unrecognised argument in a gate call")
            return f + "(" + ",".join(args) + ")"
        raise TranslatorError("unrecognised call in get_compact_qobj")

    for node in tree.body:
        if isinstance(node, ast.ClassDef):
            for m in node.body:
                if isinstance(m, ast.FunctionDef) and m.name == "get_compact_qobj":
                    if node.name == "Gate":
                        st = m.body[-2] if isinstance(m.body[-1], ast.Return) else m.body[-1]
                        # walk the if/elif chain
                        cur = next(s for s in m.body if isinstance(s, ast.If))
                        while True:
                            t = cur.test
                            if not (isinstance(t, ast.Compare) and isinstance(t.left, ast.Attribute) and t.left.attr == "name"):
                                raise TranslatorError("get_compact_qobj chain: unexpected test")
                            nm = t.comparators[0].value
                            b = cur.body[0]
                            if isinstance(b, ast.Assign):
                                out[nm] = callspec(b.value)
                            else:
                                out[nm] = "raise"
                            if len(cur.orelse) == 1 and isinstance(cur.orelse[0], ast.If):
                                cur = cur.orelse[0]
                            else:
                                break
                    else:
                        r = m.body[-1]
                        if isinstance(r, ast.Return):
                            try:
                                classes[node.name] = callspec(r.value)
                            except TranslatorError:
                                classes[node.name] = "special"
        if isinstance(node, ast.Assign) and isinstance(node.targets[0], ast.Name):
            tn = node.targets[0].id
            if tn == "GATE_CLASS_MAP":
                for k, v in zip(node.value.keys, node.value.values):
                    class_map[k.value] = v.id
            elif isinstance(node.value, ast.Name) and node.value.id in classes:
                classes[tn] = classes[node.value.id]          # SNOT = H
            elif isinstance(node.value, ast.Call) and isinstance(node.value.func, ast.Name) and node.value.func.id == "partial":
                tg = [k.value.id for k in node.value.keywords if k.arg == "target_gate"]
                if tg:
                    classes[tn] = f"controlled_gate({classes.get(tg[0], '?')})"
    return out, classes, class_map


def renderF(known, defsF):
    L = ["import QipVerif.Num.CF",
         "/-! GENERATED by py/translate/gates.py — the same gate functions as Gen/GateDefs.lean, rendered from the same",
         "syntax trees as computable complex-float matrices; used only to validate the translator against the code. -/",
         "namespace QipVerif.Gen.GF\nopen QipVerif\n"]
    L += defsF
    L.append("def eval (fn : String) (a : List Float) : Option (List (List CF)) :=")
    L.append("  match fn, a with")
    for name, (d, ps) in known.items():
        pat = "[" + ", ".join(f"a{i}" for i in range(len(ps))) + "]"
        L.append(f'  | "{name}", {pat} => some ({" ".join([name + "_"] + [f"a{i}" for i in range(len(ps))])})')
    L.append("  | _, _ => none\n")
    L.append("end QipVerif.Gen.GF")
    return "\n".join(L) + "\n"


def render():
    known, defs, defsF = translate_gates()
    chain, classes, class_map = name_chain()
    L = ["import Mathlib.Analysis.SpecialFunctions.Trigonometric.Basic",
         "import Mathlib.Analysis.SpecialFunctions.Sqrt",
         "import Mathlib.LinearAlgebra.Matrix.Notation",
         "/-! GENERATED by py/translate/gates.py from /repo/src/qutip_qip/operations/{gates,gateclass}.py — do not edit.",
         "Gate functions as matrices over ℂ (real parameters); name → call tables of the two lookup paths. -/",
         "namespace QipVerif.Gen.G\n"]
    L += defs
    L.append("/-- `Gate(name).get_compact_qobj()`: name ↦ call specification -/")
    L.append("def genericPath : List (String × String) :=\n  [" +
             ",\n   ".join(f'("{k}", "{v}")' for k, v in chain.items()) + "]\n")
    L.append("/-- `GATE_CLASS_MAP[name](…).get_compact_qobj()`: name ↦ call specification of the class -/")
    L.append("def classPath : List (String × String) :=\n  [" +
             ",\n   ".join(f'("{k}", "{classes.get(v, "?")}")' for k, v in class_map.items()) + "]\n")
    L.append("end QipVerif.Gen.G")
    return "\n".join(L) + "\n", renderF(known, defsF), known, chain, classes, class_map


def spec_to_lean(spec, known, alias):
    """call specification -> (lean term, number of real parameters) or None if not translatable"""
    spec = alias.get(spec, spec)
    if spec.endswith("()") and spec[:-2] in QUTIP_CONST:
        d, t = QUTIP_CONST[spec[:-2]]
        return f"({t} : Matrix (Fin {d}) (Fin {d}) ℂ)", 0, int(d)
    if spec.startswith("controlled_gate(") and spec.endswith(")"):
        inner = spec_to_lean(spec[len("controlled_gate("):-1], known, alias)
        if inner is None or inner[2] != 2:
            return None
        return f"(ctrl {inner[0]})", inner[1], 4
    name, _, rest = spec.partition("(")
    args = rest[:-1]
    if name in known:
        d, ps = known[name]
        if args == "" and not ps:
            return f"{name}_", 0, d
        if args in ("arg", "*arg") and ps:
            return "(" + " ".join([name + "_"] + [f"a{i}" for i in range(len(ps))]) + ")", len(ps), d
    return None


def render_paths(known, chain, classes, class_map):
    # functions that just return a qutip constant: x_gate() == sigmax()
    alias = {}
    L = ["import QipVerif.Gen.GateDefs", "import QipVerif.Lemmas.GatePathTac",
         "/-! GENERATED by py/translate/gates.py — for every gate name offered both by `Gate(name)` and by",
         "`GATE_CLASS_MAP[name]`, the two paths denote the same matrix for all parameter values. -/",
         "namespace QipVerif.Gen.G\nopen QipVerif.GatePath\n"]
    names = []
    skipped = []
    for name, cls in class_map.items():
        g = chain.get(name)
        c = classes.get(cls)
        if g is None or g == "raise":
            continue
        a = spec_to_lean(g, known, alias) if g else None
        b = spec_to_lean(c, known, alias) if c else None
        if a is None or b is None or a[1] != b[1]:
            skipped.append((name, g, c))
            continue
        ident = "".join(ch if ch.isalnum() else "_" for ch in name)
        sig = "".join(f" (a{i} : ℝ)" for i in range(a[1]))
        L.append(f"theorem path_{ident}{sig} : {a[0]} = {b[0]} := by gate_path_tac\n")
        names.append(f"QipVerif.Gen.G.path_{ident}")
    L.append("end QipVerif.Gen.G")
    return "\n".join(L) + "\n", names, skipped


def regenerate():
    from translate.decomp import write_if_changed
    src, srcF, known, chain, classes, class_map = render()
    changed = write_if_changed(os.path.join(LEAN, "QipVerif", "Gen", "GateDefs.lean"), src)
    changed |= write_if_changed(os.path.join(LEAN, "QipVerif", "Gen", "GateDefsF.lean"), srcF)
    psrc, pnames, skipped = render_paths(known, chain, classes, class_map)
    changed |= write_if_changed(os.path.join(LEAN, "QipVerif", "Gen", "GatePaths.lean"), psrc)
    regenerate.path_theorems = pnames
    regenerate.path_skipped = skipped
    return changed, known, chain, classes, class_map
