"""AST translator: the CONSTRUCTORS of the gate classes of /repo/src/qutip_qip/operations/gateclass.py
->  lean/QipVerif/Gen/GateCtor.lean   (property C09: constructor arguments)

For every key of GATE_CLASS_MAP, for the generic `ControlledGate` with each single-qubit target class and for the
generic `Gate(name)` the table says which requests the constructor chain (the `__init__`s along the MRO) refuses and
whether `get_compact_qobj` reads `self.control_value`:

* the guards of `SingleQubitGate.__init__` (one target, no control) and `TwoQubitGate.__init__` (two qubits in all),
* the guard of `_OneControlledGate.__init__` on `control_value` (accepted values, default) -> `ctorPolicy`,
* whether every `__init__` of the chain hands a given `control_value` on (`CPHASE` has a parameter of that name that it
  does not pass on),
* which parameters are required (`targets`, `controls`, `control_value`, `arg_value` of the class or of its target gate),
* `ControlledGate.__init__` / `get_compact_qobj` must have exactly the recognised shape (controls wrapped into a list,
  the target gate built from `targets` and the remaining keyword arguments, `controlled_gate(U, controls=range(m),
  targets=range(m, m + len(targets)), control_value=self.control_value)`),
* a guard `self._check_fixed_control_value()` (proposed fix C09-3; absent in the current source) in the constructor of
  a class with a fixed matrix or at the head of `Gate.get_compact_qobj`.

Every statement of an `__init__` must be one of the recognised forms; anything else is a TranslatorError (the model
would no longer describe the code).  The package is NOT imported: the source text is parsed with `ast`."""
import ast, os

from vlib.core import TranslatorError
from vlib.paths import LEAN, REPO

SRC = os.path.join("src", "qutip_qip", "operations", "gateclass.py")
FIXED_GUARD = "_check_fixed_control_value"


def _dump(e):
    return ast.dump(e)[:100]


def _is_self_attr(e, attr=None):
    return isinstance(e, ast.Attribute) and isinstance(e.value, ast.Name) and e.value.id == "self" \
        and (attr is None or e.attr == attr)


def _is_raise(st, exc):
    return isinstance(st, ast.Raise) and isinstance(st.exc, ast.Call) and isinstance(st.exc.func, ast.Name) \
        and st.exc.func.id == exc


def _only_raise(body, exc):
    return len(body) == 1 and _is_raise(body[0], exc)


def _len_of(e, inner):
    """`len(<inner>)`"""
    return isinstance(e, ast.Call) and isinstance(e.func, ast.Name) and e.func.id == "len" and len(e.args) == 1 \
        and inner(e.args[0])


def c3(name, bases):
    """C3 linearisation over the classes of the module (unknown bases end the chain)"""
    def merge(seqs):
        out = []
        seqs = [list(s) for s in seqs if s]
        while seqs:
            for s in seqs:
                h = s[0]
                if not any(h in t[1:] for t in seqs):
                    break
            else:
                raise TranslatorError(f"class {name}: inconsistent hierarchy")
            out.append(h)
            seqs = [[x for x in t if x != h] for t in seqs]
            seqs = [t for t in seqs if t]
        return out
    bs = [b for b in bases.get(name, [])]
    return [name] + merge([c3(b, bases) for b in bs if b in bases] + [[b for b in bs if b in bases]])


class InitInfo:
    """what one `__init__` does, as far as the model needs it"""

    def __init__(self):
        self.required = []        # positional parameters without default (after self)
        self.optional = []        # positional parameters with default
        self.has_kwargs = False
        self.forwards = {}        # keyword of the super().__init__ call -> own parameter / "self.target_gate"
        self.star_kwargs = False  # `**kwargs` handed on
        self.guards = []          # recognised guards, in order
        self.target_gate = None   # `self.target_gate = X` before the super call
        self.policy = None        # (_OneControlledGate) (accepted values, default)
        self.controlled_body = False
        self.fixed_guard = False


def parse_init(cname, fn):
    info = InitInfo()
    a = fn.args
    if a.vararg or a.kwonlyargs or a.posonlyargs:
        raise TranslatorError(f"{cname}.__init__: unsupported signature")
    names = [x.arg for x in a.args]
    if not names or names[0] != "self":
        raise TranslatorError(f"{cname}.__init__: no self")
    nd = len(a.defaults)
    pos = names[1:]
    info.required = pos[:len(pos) - nd] if nd else list(pos)
    info.optional = pos[len(pos) - nd:] if nd else []
    info.has_kwargs = a.kwarg is not None
    kw = a.kwarg.arg if a.kwarg else None
    seen_super = False
    body = [st for st in fn.body if not (isinstance(st, ast.Expr) and isinstance(st.value, ast.Constant))]
    i = 0
    while i < len(body):
        st = body[i]
        i += 1
        # super().__init__(k=v, ..., **kwargs)
        if isinstance(st, ast.Expr) and isinstance(st.value, ast.Call) and isinstance(st.value.func, ast.Attribute) \
                and st.value.func.attr == "__init__" and isinstance(st.value.func.value, ast.Call) \
                and isinstance(st.value.func.value.func, ast.Name) and st.value.func.value.func.id == "super":
            if seen_super or st.value.args:
                raise TranslatorError(f"{cname}.__init__: unexpected super().__init__ call")
            seen_super = True
            for k in st.value.keywords:
                if k.arg is None:
                    if not (isinstance(k.value, ast.Name) and k.value.id == kw):
                        raise TranslatorError(f"{cname}.__init__: ** of something else than its own kwargs")
                    info.star_kwargs = True
                elif isinstance(k.value, ast.Name) and k.value.id in pos:
                    info.forwards[k.arg] = k.value.id
                elif _is_self_attr(k.value, "target_gate"):
                    info.forwards[k.arg] = "self.target_gate"
                else:
                    raise TranslatorError(f"{cname}.__init__: super argument {k.arg}=" + _dump(k.value))
            continue
        # self.latex_str = "..."      /     self.target_gate = X (before the super call)
        if isinstance(st, ast.Assign) and len(st.targets) == 1 and _is_self_attr(st.targets[0]):
            attr = st.targets[0].attr
            if attr == "latex_str" and isinstance(st.value, ast.Constant):
                continue
            if attr == "target_gate" and isinstance(st.value, ast.Name) and not seen_super and st.value.id not in pos:
                info.target_gate = st.value.id
                continue
            if cname == "ControlledGate" and seen_super:
                # self.controls = [controls] if not isinstance(controls, list) else controls
                v = st.value
                if attr == "controls" and isinstance(v, ast.IfExp) and isinstance(v.test, ast.UnaryOp) \
                        and isinstance(v.test.op, ast.Not) and isinstance(v.test.operand, ast.Call) \
                        and isinstance(v.test.operand.func, ast.Name) and v.test.operand.func.id == "isinstance" \
                        and [getattr(x, "id", None) for x in v.test.operand.args] == ["controls", "list"] \
                        and isinstance(v.body, ast.List) and len(v.body.elts) == 1 \
                        and getattr(v.body.elts[0], "id", None) == "controls" and getattr(v.orelse, "id", None) == "controls":
                    info.controlled_body = True
                    continue
                if attr in ("control_value", "target_gate") and isinstance(v, ast.Name) and v.id == attr:
                    continue
                if attr == "kwargs" and isinstance(v, ast.Name) and v.id == kw:
                    continue
                # self.latex_str = target_gate(targets=self.targets, **self.kwargs).latex_str
                if attr == "latex_str" and isinstance(v, ast.Attribute) and v.attr == "latex_str" \
                        and _target_gate_call(v.value, "target_gate"):
                    continue
            raise TranslatorError(f"{cname}.__init__: assignment " + _dump(st))
        # guards
        if isinstance(st, ast.If) and not st.orelse and _only_raise(st.body, "ValueError") and seen_super:
            t = st.test
            # self.targets is None or len(self.targets) != k
            if isinstance(t, ast.BoolOp) and isinstance(t.op, ast.Or) and len(t.values) == 2:
                l, r = t.values
                if isinstance(l, ast.Compare) and _is_self_attr(l.left, "targets") and isinstance(l.ops[0], ast.Is) \
                        and isinstance(l.comparators[0], ast.Constant) and l.comparators[0].value is None \
                        and isinstance(r, ast.Compare) and _len_of(r.left, lambda x: _is_self_attr(x, "targets")) \
                        and isinstance(r.ops[0], ast.NotEq) and isinstance(r.comparators[0], ast.Constant):
                    info.guards.append(("targetsLen", int(r.comparators[0].value)))
                    continue
            # self.controls
            if _is_self_attr(t, "controls"):
                info.guards.append(("noControls", 0))
                continue
            # len(self.get_all_qubits()) != k
            if isinstance(t, ast.Compare) and isinstance(t.ops[0], ast.NotEq) and isinstance(t.comparators[0], ast.Constant) \
                    and _len_of(t.left, lambda x: isinstance(x, ast.Call) and not x.args and _is_self_attr(x.func, "get_all_qubits")):
                info.guards.append(("allQubitsLen", int(t.comparators[0].value)))
                continue
            raise TranslatorError(f"{cname}.__init__: guard " + _dump(t))
        # self._check_fixed_control_value()
        if isinstance(st, ast.Expr) and isinstance(st.value, ast.Call) and not st.value.args and not st.value.keywords \
                and _is_self_attr(st.value.func, FIXED_GUARD) and seen_super:
            info.fixed_guard = True
            continue
        # the control_value policy of _OneControlledGate:
        #   _control_value = kwargs.get("control_value", None)
        #   if _control_value is not None:
        #       if <test>: raise ValueError
        #   else: kwargs["control_value"] = d
        if isinstance(st, ast.Assign) and len(st.targets) == 1 and isinstance(st.targets[0], ast.Name) and not seen_super:
            var = st.targets[0].id
            v = st.value
            ok = isinstance(v, ast.Call) and isinstance(v.func, ast.Attribute) and v.func.attr == "get" \
                and getattr(v.func.value, "id", None) == kw and len(v.args) == 2 \
                and getattr(v.args[0], "value", None) == "control_value" and isinstance(v.args[1], ast.Constant) \
                and v.args[1].value is None
            if ok and i < len(body) and isinstance(body[i], ast.If):
                g = body[i]
                i += 1
                t = g.test
                isnotnone = isinstance(t, ast.Compare) and getattr(t.left, "id", None) == var and isinstance(t.ops[0], ast.IsNot) \
                    and isinstance(t.comparators[0], ast.Constant) and t.comparators[0].value is None
                inner = g.body[0] if len(g.body) == 1 and isinstance(g.body[0], ast.If) else None
                els = g.orelse[0] if len(g.orelse) == 1 else None
                if isnotnone and inner is not None and not inner.orelse and _only_raise(inner.body, "ValueError") \
                        and isinstance(els, ast.Assign) and isinstance(els.targets[0], ast.Subscript) \
                        and getattr(els.targets[0].value, "id", None) == kw \
                        and getattr(els.targets[0].slice, "value", None) == "control_value" \
                        and isinstance(els.value, ast.Constant) and isinstance(els.value.value, int) \
                        and not isinstance(els.value.value, bool):
                    it = inner.test
                    acc = None
                    if isinstance(it, ast.Compare) and getattr(it.left, "id", None) == var and len(it.ops) == 1:
                        c = it.comparators[0]
                        if isinstance(it.ops[0], ast.NotEq) and isinstance(c, ast.Constant) and type(c.value) is int:
                            acc = [c.value]
                        elif isinstance(it.ops[0], ast.NotIn) and isinstance(c, (ast.Tuple, ast.List, ast.Set)) \
                                and all(isinstance(x, ast.Constant) and type(x.value) is int for x in c.elts):
                            acc = [x.value for x in c.elts]
                    if acc is not None:
                        info.policy = (acc, els.value.value)
                        continue
            raise TranslatorError(f"{cname}.__init__: statement " + _dump(st))
        raise TranslatorError(f"{cname}.__init__: statement " + _dump(st))
    if not seen_super:
        raise TranslatorError(f"{cname}.__init__: no super().__init__ call")
    return info


def _target_gate_call(e, who):
    """`<who>(targets=self.targets, **self.kwargs)` with who = `target_gate` or `self.target_gate`"""
    if not isinstance(e, ast.Call) or e.args or len(e.keywords) != 2:
        return False
    f = e.func
    if who == "target_gate":
        if not (isinstance(f, ast.Name) and f.id == "target_gate"):
            return False
    elif not _is_self_attr(f, "target_gate"):
        return False
    k0, k1 = e.keywords
    return k0.arg == "targets" and _is_self_attr(k0.value, "targets") and k1.arg is None and _is_self_attr(k1.value, "kwargs")


def controlled_compact_ok(fn):
    """ControlledGate.get_compact_qobj must be
        return controlled_gate(U=self.target_gate(targets=self.targets, **self.kwargs).get_compact_qobj(),
                               controls=list(range(len(self.controls))),
                               targets=list(range(len(self.controls), len(self.targets) + len(self.controls))),
                               control_value=self.control_value)"""
    body = [st for st in fn.body if not (isinstance(st, ast.Expr) and isinstance(st.value, ast.Constant))]
    if len(body) != 1 or not isinstance(body[0], ast.Return):
        return False
    c = body[0].value
    if not (isinstance(c, ast.Call) and getattr(c.func, "id", None) == "controlled_gate" and not c.args):
        return False
    kws = {k.arg: k.value for k in c.keywords}
    if set(kws) != {"U", "controls", "targets", "control_value"}:
        return False
    u = kws["U"]
    if not (isinstance(u, ast.Call) and isinstance(u.func, ast.Attribute) and u.func.attr == "get_compact_qobj"
            and not u.args and _target_gate_call(u.func.value, "self")):
        return False

    def lenself(x, attr):
        return _len_of(x, lambda y: _is_self_attr(y, attr))

    def list_range(x, check):
        return isinstance(x, ast.Call) and getattr(x.func, "id", None) == "list" and len(x.args) == 1 \
            and isinstance(x.args[0], ast.Call) and getattr(x.args[0].func, "id", None) == "range" and check(x.args[0].args)

    if not list_range(kws["controls"], lambda a: len(a) == 1 and lenself(a[0], "controls")):
        return False

    def tcheck(a):
        if len(a) != 2 or not lenself(a[0], "controls"):
            return False
        s = a[1]
        return isinstance(s, ast.BinOp) and isinstance(s.op, ast.Add) and \
            {("targets" if lenself(s.left, "targets") else "controls" if lenself(s.left, "controls") else "?"),
             ("targets" if lenself(s.right, "targets") else "controls" if lenself(s.right, "controls") else "?")} == {"targets", "controls"}
    if not list_range(kws["targets"], tcheck):
        return False
    return _is_self_attr(kws["control_value"], "control_value")


def uses_control_value(fn):
    return any(isinstance(n, ast.Attribute) and n.attr == "control_value" for n in ast.walk(fn))


def head_fixed_guard(fn):
    """`self._check_fixed_control_value()` as the first statement (after the docstring/comments) of a method"""
    body = [st for st in fn.body if not (isinstance(st, ast.Expr) and isinstance(st.value, ast.Constant))]
    st = body[0] if body else None
    return isinstance(st, ast.Expr) and isinstance(st.value, ast.Call) and _is_self_attr(st.value.func, FIXED_GUARD) \
        and not st.value.args and not st.value.keywords


def fixed_guard_ok(fn):
    """the proposed helper of `Gate` (fix C09-3) must be exactly

        def _check_fixed_control_value(self):
            if self.control_value is None:
                return
            if not self.controls or self.control_value != 2 ** len(self.controls) - 1:
                raise ValueError(...)"""
    body = [st for st in fn.body if not (isinstance(st, ast.Expr) and isinstance(st.value, ast.Constant))]
    if len(body) != 2:
        return False
    a, c = body
    ok_a = isinstance(a, ast.If) and not a.orelse and len(a.body) == 1 and isinstance(a.body[0], ast.Return) \
        and a.body[0].value is None and isinstance(a.test, ast.Compare) and _is_self_attr(a.test.left, "control_value") \
        and len(a.test.ops) == 1 and isinstance(a.test.ops[0], ast.Is) and getattr(a.test.comparators[0], "value", 0) is None
    ok_c = isinstance(c, ast.If) and not c.orelse and _only_raise(c.body, "ValueError") and isinstance(c.test, ast.BoolOp) \
        and isinstance(c.test.op, ast.Or) and len(c.test.values) == 2
    if not (ok_a and ok_c):
        return False
    l, r = c.test.values
    ok_l = isinstance(l, ast.UnaryOp) and isinstance(l.op, ast.Not) and _is_self_attr(l.operand, "controls")
    ok_r = isinstance(r, ast.Compare) and _is_self_attr(r.left, "control_value") and len(r.ops) == 1 \
        and isinstance(r.ops[0], ast.NotEq) \
        and ast.unparse(r.comparators[0]).replace(" ", "") == "2**len(self.controls)-1"
    return ok_l and ok_r


def extract(tables=None):
    """-> dict(policy=(accepted, default), entries=[...], single=[class names usable as target gates]);
    `tables` = (chain, classes, class_map) of translate.gates.name_chain if already computed"""
    from translate import gates as tg
    path = os.path.join(REPO, SRC)
    tree = ast.parse(open(path).read())
    bases, inits, compacts, methods = {}, {}, {}, {}
    aliases, partials = {}, {}
    for node in tree.body:
        if isinstance(node, ast.ClassDef):
            bs = []
            for b in node.bases:
                if not isinstance(b, ast.Name):
                    raise TranslatorError(f"class {node.name}: base is not a name")
                bs.append(b.id)
            bases[node.name] = bs
            for m in node.body:
                if isinstance(m, ast.FunctionDef):
                    methods.setdefault(node.name, {})[m.name] = m
                    if m.name == "__init__" and node.name != "Gate":
                        inits[node.name] = parse_init(node.name, m)
                    if m.name == "get_compact_qobj":
                        compacts[node.name] = m
        elif isinstance(node, ast.Assign) and len(node.targets) == 1 and isinstance(node.targets[0], ast.Name):
            tn = node.targets[0].id
            v = node.value
            if isinstance(v, ast.Name) and v.id in bases:
                aliases[tn] = v.id
            elif isinstance(v, ast.Call) and getattr(v.func, "id", None) == "partial":
                if len(v.args) != 1 or not isinstance(v.args[0], ast.Name) or len(v.keywords) != 1 \
                        or v.keywords[0].arg != "target_gate" or not isinstance(v.keywords[0].value, ast.Name):
                    raise TranslatorError(f"{tn} = partial(...): not of the form partial(Class, target_gate=Class)")
                partials[tn] = (v.args[0].id, v.keywords[0].value.id)
    if "Gate" not in bases or bases["Gate"]:
        raise TranslatorError("class Gate not found (or it has a base class)")
    # Gate.__init__: the parameters the model relies on, and no refusal that depends on control_value / arity
    gi = methods["Gate"].get("__init__")
    if gi is None:
        raise TranslatorError("Gate.__init__ not found")
    gparams = [a.arg for a in gi.args.args[1:]]
    for p in ("name", "targets", "controls", "arg_value", "control_value"):
        if p not in gparams:
            raise TranslatorError(f"Gate.__init__ has no parameter {p}")
    if len(gi.args.defaults) != len(gparams):
        raise TranslatorError("Gate.__init__: a parameter without default")
    for n in ast.walk(gi):
        if isinstance(n, ast.Raise):
            # the two recognised refusals: classical_control_value out of range, non-integer index
            msg = ast.unparse(n)
            if "classical_control_value" not in msg and "Index of a qubit" not in msg:
                raise TranslatorError("Gate.__init__: unrecognised refusal " + msg[:80])
    generic_guard = head_fixed_guard(methods["Gate"]["get_compact_qobj"])
    if FIXED_GUARD in methods["Gate"]:
        if not fixed_guard_ok(methods["Gate"][FIXED_GUARD]):
            raise TranslatorError(f"Gate.{FIXED_GUARD}: not the recognised guard")
    elif generic_guard or any(i.fixed_guard for i in inits.values()):
        raise TranslatorError(f"{FIXED_GUARD} is called but not defined in Gate")
    qubits_variant = gate_init_qubits(tree)
    if "ControlledGate" not in inits:
        raise TranslatorError("ControlledGate.__init__ not found")
    if not inits["ControlledGate"].controlled_body and qubits_variant != "list-copy":
        # without the re-wrapping line the controls must already be a list when ControlledGate.__init__ goes on
        raise TranslatorError("ControlledGate.__init__: `self.controls = [controls] if not isinstance(controls, list) …` not found "
                              "and Gate.__init__ does not turn every sequence into a list")
    ci = inits["ControlledGate"]
    if ci.required != ["controls", "targets", "control_value", "target_gate"] or not ci.has_kwargs or not ci.star_kwargs \
            or ci.forwards != {"controls": "controls", "targets": "targets", "control_value": "control_value", "target_gate": "target_gate"}:
        raise TranslatorError("ControlledGate.__init__: signature / super call not recognised")
    if "ControlledGate" not in compacts or not controlled_compact_ok(compacts["ControlledGate"]):
        raise TranslatorError("ControlledGate.get_compact_qobj: not the recognised call of controlled_gate")
    oi = inits.get("_OneControlledGate")
    if oi is None or oi.policy is None:
        raise TranslatorError("_OneControlledGate.__init__: control_value guard not recognised")
    if oi.required != ["controls", "targets", "target_gate"] or not oi.star_kwargs \
            or oi.forwards != {"targets": "targets", "controls": "controls", "target_gate": "target_gate"}:
        raise TranslatorError("_OneControlledGate.__init__: signature / super call not recognised")

    if tables is None:
        tables = tg.name_chain(tg.translate_extra(dict(tg.translate_gates()[0]))[3])
    chain, classes, class_map = tables

    def mro(c):
        return c3(c, bases)

    def describe(key, cls, target_gate=None):
        """table entry of the class `cls` (with `target_gate` fixed by a partial alias, if any)"""
        cls = aliases.get(cls, cls)
        m = mro(cls)
        if m[-1] != "Gate":
            raise TranslatorError(f"class {cls}: MRO does not end in Gate")
        arity = "any"
        required = None
        fwd_cv = True
        fixed_guard = False
        arg_required = False
        for c in m[:-1]:
            ii = inits.get(c)
            if ii is None:
                continue            # inherits __init__
            if required is None:
                required = list(ii.required)
            for g, k in ii.guards:
                if g == "targetsLen" and k == 1:
                    arity = "single"
                elif g == "allQubitsLen" and k == 2:
                    arity = "two" if arity == "any" else arity
                elif g == "noControls":
                    pass
                else:
                    raise TranslatorError(f"class {c}: guard {g} {k}")
            if ("targetsLen", 1) in ii.guards and ("noControls", 0) not in ii.guards:
                raise TranslatorError(f"class {c}: one-target guard without the no-control guard")
            if "control_value" in ii.required + ii.optional and ii.forwards.get("control_value") != "control_value":
                fwd_cv = False
            if "arg_value" in ii.required + ii.optional and ii.forwards.get("arg_value") != "arg_value":
                raise TranslatorError(f"class {c}: arg_value is not handed on")
            if not ii.star_kwargs and ii.has_kwargs:
                raise TranslatorError(f"class {c}: **kwargs not handed on")
            if ii.target_gate is not None and target_gate is None:
                target_gate = ii.target_gate
            fixed_guard |= ii.fixed_guard
        own = inits.get(next((c for c in m if c in inits), None))
        if own is None:
            raise TranslatorError(f"class {cls}: no __init__ in the hierarchy")
        arg_required = "arg_value" in own.required
        controlled = "ControlledGate" in m
        one = "_OneControlledGate" in m
        if one and m.index("_OneControlledGate") > m.index("ControlledGate"):
            raise TranslatorError("_OneControlledGate after ControlledGate in the MRO")
        if one and not ("TwoQubitGate" in m and m.index("TwoQubitGate") > m.index("ControlledGate")):
            raise TranslatorError("_OneControlledGate: TwoQubitGate does not follow ControlledGate in the MRO")
        cq = next((c for c in m if c in compacts), None)
        uses = cq is not None and cq != "Gate" and uses_control_value(compacts[cq])
        if uses and cq != "ControlledGate":
            raise TranslatorError(f"class {cq}: get_compact_qobj reads control_value in an unrecognised way")
        if cq == "Gate":
            raise TranslatorError(f"class {cls}: no get_compact_qobj of its own")
        tg_arg_required = False
        if controlled:
            if target_gate is None:
                raise TranslatorError(f"class {cls}: target gate unknown")
            tinfo = describe("", target_gate) if target_gate != cls else None
            if tinfo is None or tinfo["arity"] != "single" or tinfo["controlled"]:
                raise TranslatorError(f"class {cls}: target gate {target_gate} is not a single-qubit class")
            tg_arg_required = tinfo["argRequired"]
            spec = tinfo["spec"] if uses else classes.get(cls, "?")
        else:
            spec = classes.get(cls, "?")
        if spec in ("?", "special", None):
            raise TranslatorError(f"class {cls}: call specification of get_compact_qobj not recognised")
        want = ["targets"] if not controlled else ["controls", "targets"]
        extra = [p for p in (required or []) if p not in want + ["arg_value", "target_gate", "control_value"]]
        if extra or any(p not in (required or []) for p in want):
            raise TranslatorError(f"class {cls}: required parameters {required}")
        return {"key": key, "cls": cls, "arity": arity, "oneCtrl": one, "controlled": controlled,
                "generic": False, "cvRequired": controlled and not one and "control_value" in (required or []),
                "fwdCV": fwd_cv, "usesCV": uses, "argRequired": arg_required, "tgArgRequired": tg_arg_required,
                "fixedGuard": fixed_guard, "spec": spec, "targetGate": target_gate or ""}

    entries = []
    for key, cls in class_map.items():
        if cls in partials:
            base, tgt = partials[cls]
            entries.append(describe(key, base, tgt))
        else:
            entries.append(describe(key, cls))
    singles = [c for c in bases if c not in ("Gate", "SingleQubitGate") and "SingleQubitGate" in mro(c)]
    for t in singles:
        e = describe("ControlledGate:" + t, "ControlledGate", t)
        entries.append(e)
    for name, spec in chain.items():
        if spec == "raise":
            continue
        entries.append({"key": "Gate:" + name, "cls": "Gate", "arity": "any", "oneCtrl": False, "controlled": False,
                        "generic": True, "cvRequired": False, "fwdCV": True, "usesCV": False, "argRequired": False,
                        "tgArgRequired": False, "fixedGuard": generic_guard, "spec": spec, "targetGate": ""})
    return {"policy": oi.policy, "entries": entries, "singles": singles, "qubits": qubits_variant,
            "rewrap": inits["ControlledGate"].controlled_body}


def arg_spec(spec):
    """call specification -> how `arg_value` is consumed: (kind, lo, hi)
    noArg: ignored; scalar: a number; unpack k: an iterable of exactly k numbers; star lo hi: an iterable of lo..hi numbers"""
    from translate import gates as tg
    if spec.startswith("controlled_gate(") and spec.endswith(")"):
        spec = spec[len("controlled_gate("):-1]
    name, _, rest = spec.partition("(")
    args = rest[:-1]
    if args == "" or args.startswith("'") or args.isdigit():
        return ("noArg", 0, 0)
    path = os.path.join(REPO, "src", "qutip_qip", "operations", "gates.py")
    fns = tg.parse_functions(open(path).read())
    if name.startswith("cls_"):
        if args != "arg":
            raise TranslatorError(f"call specification {spec}")
        return ("scalar", 0, 0)
    fn = fns.get(name)
    if fn is None:
        raise TranslatorError(f"call specification {spec}: function not found")
    pos = [a.arg for a in fn.args.args]
    nd = len(fn.args.defaults)
    if args == "*arg":
        params = [p for p in pos if p not in tg.SKIP_ARGS]
        lo = len(pos) - nd
        if pos[:len(params)] != params:
            raise TranslatorError(f"{name}: qubit arguments before the parameters")
        return ("star", lo, len(params))
    if args == "arg":
        for st in fn.body:
            if isinstance(st, ast.Assign) and isinstance(st.targets[0], ast.Tuple) and getattr(st.value, "id", None) == pos[0]:
                return ("unpack", len(st.targets[0].elts), 0)
        return ("scalar", 0, 0)
    raise TranslatorError(f"call specification {spec}")


def gate_init_qubits(tree=None):
    """`Gate.__init__`: `if not isinstance(X, Iterable) and X is not None: self.X = [X]` / `else: self.X = <E>` for X = targets,
    controls.  <E> is `X` (the object the caller passed is stored: variant "as-given") or `None if X is None else list(X)`
    (fix C09-5: every sequence becomes a new list: variant "list-copy").  -> the variant"""
    if tree is None:
        tree = ast.parse(open(os.path.join(REPO, SRC)).read())
    gate = next((n for n in tree.body if isinstance(n, ast.ClassDef) and n.name == "Gate"), None)
    init = next((m for m in gate.body if isinstance(m, ast.FunctionDef) and m.name == "__init__"), None) if gate else None
    if init is None:
        raise TranslatorError("Gate.__init__ not found")
    found = {}
    for st in init.body:
        if not isinstance(st, ast.If) or len(st.body) != 1 or len(st.orelse) != 1:
            continue
        for x in ("targets", "controls"):
            if ast.unparse(st.test) == f"not isinstance({x}, Iterable) and {x} is not None" \
                    and ast.unparse(st.body[0]) == f"self.{x} = [{x}]":
                e = ast.unparse(st.orelse[0])
                if e == f"self.{x} = {x}":
                    found[x] = "as-given"
                elif e == f"self.{x} = None if {x} is None else list({x})":
                    found[x] = "list-copy"
                else:
                    raise TranslatorError(f"Gate.__init__: `{e}` not recognised")
    if set(found) != {"targets", "controls"} or found["targets"] != found["controls"]:
        raise TranslatorError(f"Gate.__init__: normalisation of targets / controls not recognised ({found})")
    return found["targets"]


def circuit_unitary_rule():
    """`QubitCircuit._get_gate_unitary(gate)` (circuit.py), the matrix `propagators` / the simulator use for a gate: for a
    library gate it must be exactly `qobj = gate.get_compact_qobj()` — the gate's own matrix — and neither it nor
    `propagators` may write any state of the circuit (no assignment to / through `self`), so the matrix reported for a gate
    cannot depend on the other gates the circuit holds.  -> the rule as a string"""
    path = os.path.join(REPO, "src", "qutip_qip", "circuit", "circuit.py")
    tree = ast.parse(open(path).read())
    cls = next((n for n in tree.body if isinstance(n, ast.ClassDef) and n.name == "QubitCircuit"), None)
    if cls is None:
        raise TranslatorError("class QubitCircuit not found")
    meth = {m.name: m for m in cls.body if isinstance(m, ast.FunctionDef)}
    for name in ("_get_gate_unitary", "propagators"):
        if name not in meth:
            raise TranslatorError(f"QubitCircuit.{name} not found")

    def writes_self(fn):
        for n in ast.walk(fn):
            targets = []
            if isinstance(n, ast.Assign):
                targets = n.targets
            elif isinstance(n, (ast.AugAssign, ast.AnnAssign)):
                targets = [n.target]
            elif isinstance(n, ast.Delete):
                targets = n.targets
            for t in targets:
                for x in ast.walk(t):
                    if isinstance(x, ast.Name) and x.id == "self":
                        return True
            if isinstance(n, ast.Call) and isinstance(n.func, ast.Attribute) and n.func.attr in (
                    "setdefault", "update", "append", "pop", "clear", "insert", "extend", "add", "__setitem__", "setattr"):
                if any(isinstance(x, ast.Name) and x.id == "self" for x in ast.walk(n.func.value)):
                    return True
            if isinstance(n, ast.Call) and getattr(n.func, "id", None) == "setattr":
                return True
        return False

    g = meth["_get_gate_unitary"]
    if [a.arg for a in g.args.args] != ["self", "gate"]:
        raise TranslatorError("QubitCircuit._get_gate_unitary: signature")
    body = [st for st in g.body if not (isinstance(st, ast.Expr) and isinstance(st.value, ast.Constant))]
    ok = len(body) == 2 and isinstance(body[0], ast.If) and isinstance(body[1], ast.Return) \
        and getattr(body[1].value, "id", None) == "qobj"
    if ok:
        t = body[0].test
        ok = isinstance(t, ast.Compare) and len(t.ops) == 1 and isinstance(t.ops[0], ast.In) \
            and ast.unparse(t.left) == "gate.name" and ast.unparse(t.comparators[0]) == "self.user_gates"
        els = body[0].orelse
        ok = ok and len(els) == 1 and isinstance(els[0], ast.Assign) and ast.unparse(els[0]) == "qobj = gate.get_compact_qobj()"
    if not ok:
        raise TranslatorError("QubitCircuit._get_gate_unitary: not `if gate.name in self.user_gates: … else: qobj = "
                              "gate.get_compact_qobj()`; `return qobj`")
    if writes_self(g) or writes_self(meth["propagators"]):
        raise TranslatorError("QubitCircuit._get_gate_unitary / propagators write state of the circuit")
    calls = [n for n in ast.walk(meth["propagators"]) if isinstance(n, ast.Assign)
             and ast.unparse(n) == "qobj = self._get_gate_unitary(gate)"]
    loops = [n for n in ast.walk(meth["propagators"]) if isinstance(n, ast.For) and ast.unparse(n.target) == "gate"
             and any(c in ast.walk(n) for c in calls)]
    if not calls or not loops:
        raise TranslatorError("QubitCircuit.propagators: `for gate in …: qobj = self._get_gate_unitary(gate)` not found")
    return "gate.get_compact_qobj()"


def get_qobj_rule():
    """`Gate.get_qobj` / `Gate.get_all_qubits` (gateclass.py) and the `expand=True` branch of `QubitCircuit.propagators`:
    the operator on the register is `expand_operator(self.get_compact_qobj(), dims=dims, targets=self.get_all_qubits())`
    with `get_all_qubits() = self.controls + self.targets` (controls first, in the order the object stores them); no class
    overrides either method.  -> the rule as a string"""
    tree = ast.parse(open(os.path.join(REPO, SRC)).read())
    found = {}
    for node in tree.body:
        if isinstance(node, ast.ClassDef):
            for m in node.body:
                if isinstance(m, ast.FunctionDef) and m.name in ("get_qobj", "get_all_qubits"):
                    if node.name != "Gate":
                        raise TranslatorError(f"class {node.name} overrides {m.name}")
                    found[m.name] = m
    if set(found) != {"get_qobj", "get_all_qubits"}:
        raise TranslatorError("Gate.get_qobj / Gate.get_all_qubits not found")
    ga = [st for st in found["get_all_qubits"].body if not (isinstance(st, ast.Expr) and isinstance(st.value, ast.Constant))]
    ok = len(ga) >= 1 and isinstance(ga[0], ast.If) and ast.unparse(ga[0].test) == "self.controls is not None" \
        and len(ga[0].body) == 1 and ast.unparse(ga[0].body[0]) == "return self.controls + self.targets"
    if not ok:
        raise TranslatorError("Gate.get_all_qubits: not `if self.controls is not None: return self.controls + self.targets`")
    gq = found["get_qobj"]
    rets = [n for n in ast.walk(gq) if isinstance(n, ast.Return)]
    last = gq.body[-1]
    ok = isinstance(last, ast.Return) and isinstance(last.value, ast.Call) and getattr(last.value.func, "id", None) == "expand_operator" \
        and [ast.unparse(a) for a in last.value.args] == ["self.get_compact_qobj()"] \
        and {k.arg: ast.unparse(k.value) for k in last.value.keywords} == {"dims": "dims", "targets": "all_targets"}
    assigns = [ast.unparse(n) for n in gq.body if isinstance(n, ast.Assign)]
    ok = ok and "all_targets = self.get_all_qubits()" in assigns and all(a.startswith("all_targets = self.get_all_qubits()") or
                                                                           not a.startswith("all_targets") for a in assigns)
    for n in ast.walk(gq):
        if isinstance(n, (ast.Assign, ast.AugAssign)):
            for t in (n.targets if isinstance(n, ast.Assign) else [n.target]):
                if "all_targets" in ast.unparse(t) and ast.unparse(n) != "all_targets = self.get_all_qubits()":
                    ok = False
    if not ok:
        raise TranslatorError("Gate.get_qobj: not `return expand_operator(self.get_compact_qobj(), dims=dims, "
                              "targets=all_targets)` with all_targets = self.get_all_qubits()")
    ctree = ast.parse(open(os.path.join(REPO, "src", "qutip_qip", "circuit", "circuit.py")).read())
    cls = next(n for n in ctree.body if isinstance(n, ast.ClassDef) and n.name == "QubitCircuit")
    prop = next((m for m in cls.body if isinstance(m, ast.FunctionDef) and m.name == "propagators"), None)
    src = ast.unparse(prop) if prop is not None else ""
    if "all_targets = gate.get_all_qubits()" not in src or \
            "qobj = expand_operator(qobj, dims=self.dims, targets=all_targets)" not in src:
        raise TranslatorError("QubitCircuit.propagators: expansion with gate.get_all_qubits() not recognised")
    return "expand_operator(compact, dims, controls + targets)"


def circuit_fresh_rule():
    """What a FRESH circuit is (circuit.py, also gateclass.py / circuitsimulator.py): `QubitCircuit.__init__` must have only
    immutable literals as parameter defaults and create its containers per object (`self.gates = []`,
    `if user_gates is None: self.user_gates = {}` / `elif dict: self.user_gates = user_gates` / else raise); no `__init__`
    of these modules (nor add_gate, add_circuit, _get_gate_unitary, propagators) has a mutable default; no class of these
    modules has a class-level container; the only stores into a circuit's user_gates outside `__init__` are the inheritance
    loop of `add_circuit` (`if user_gate in self.user_gates and not overwrite_user_gates: continue;
    self.user_gates[user_gate] = qc.user_gates[user_gate]`).  -> the rule as a string"""
    base = os.path.join(REPO, "src", "qutip_qip")
    files = [os.path.join(base, "circuit", "circuit.py"), os.path.join(base, "operations", "gateclass.py"),
             os.path.join(base, "circuit", "circuitsimulator.py")]

    def immutable(d):
        return isinstance(d, ast.Constant) or (isinstance(d, ast.UnaryOp) and isinstance(d.operand, ast.Constant)) \
            or (isinstance(d, ast.Tuple) and all(immutable(x) for x in d.elts))

    watched = {"__init__", "add_gate", "add_circuit", "_get_gate_unitary", "propagators", "get_qobj", "get_compact_qobj"}
    qc_cls = None
    for f in files:
        tree = ast.parse(open(f).read())
        for c in tree.body:
            if not isinstance(c, ast.ClassDef):
                continue
            if c.name == "QubitCircuit":
                qc_cls = c
            for st in c.body:
                if isinstance(st, (ast.Assign, ast.AnnAssign)):
                    v = st.value
                    if v is not None and not immutable(v):
                        raise TranslatorError(f"class {c.name}: class-level attribute {ast.unparse(st)[:60]} is shared by all objects")
                if isinstance(st, ast.FunctionDef) and st.name in watched:
                    for d in st.args.defaults + [x for x in st.args.kw_defaults if x is not None]:
                        if not immutable(d):
                            raise TranslatorError(f"{c.name}.{st.name}: mutable default argument {ast.unparse(d)[:40]} "
                                                  "(one object shared by all calls)")
    if qc_cls is None:
        raise TranslatorError("class QubitCircuit not found")
    init = next((m for m in qc_cls.body if isinstance(m, ast.FunctionDef) and m.name == "__init__"), None)
    if init is None:
        raise TranslatorError("QubitCircuit.__init__ not found")
    src = [ast.unparse(st) for st in init.body]
    if "self.gates = []" not in src:
        raise TranslatorError("QubitCircuit.__init__: `self.gates = []` not found")
    ug = [st for st in init.body if isinstance(st, ast.If) and ast.unparse(st.test) == "user_gates is None"]
    ok = len(ug) == 1 and [ast.unparse(x) for x in ug[0].body] == ["self.user_gates = {}"] and len(ug[0].orelse) == 1 \
        and isinstance(ug[0].orelse[0], ast.If) and ast.unparse(ug[0].orelse[0].test) == "isinstance(user_gates, dict)" \
        and [ast.unparse(x) for x in ug[0].orelse[0].body] == ["self.user_gates = user_gates"] \
        and len(ug[0].orelse[0].orelse) == 1 and isinstance(ug[0].orelse[0].orelse[0], ast.Raise)
    if not ok:
        raise TranslatorError("QubitCircuit.__init__: `if user_gates is None: self.user_gates = {}` / dict / raise not recognised")
    stores = []
    for m in qc_cls.body:
        if not isinstance(m, ast.FunctionDef) or m.name == "__init__":
            continue
        for n in ast.walk(m):
            tg = n.targets if isinstance(n, ast.Assign) else [n.target] if isinstance(n, (ast.AugAssign, ast.AnnAssign)) else \
                n.targets if isinstance(n, ast.Delete) else []
            for t in tg:
                if "user_gates" in ast.unparse(t):
                    stores.append((m.name, ast.unparse(n)))
            if isinstance(n, ast.Call) and isinstance(n.func, ast.Attribute) and "user_gates" in ast.unparse(n.func.value) \
                    and n.func.attr in ("update", "setdefault", "pop", "clear", "popitem", "__setitem__", "__delitem__"):
                stores.append((m.name, ast.unparse(n)))
    if stores != [("add_circuit", "self.user_gates[user_gate] = qc.user_gates[user_gate]")]:
        raise TranslatorError(f"QubitCircuit: stores into user_gates outside __init__: {stores}")
    ac = next(m for m in qc_cls.body if isinstance(m, ast.FunctionDef) and m.name == "add_circuit")
    loops = [n for n in ac.body if isinstance(n, ast.For) and ast.unparse(n.iter) == "qc.user_gates"]
    ok = len(loops) == 1 and ast.unparse(loops[0].target) == "user_gate" and len(loops[0].body) == 2 \
        and isinstance(loops[0].body[0], ast.If) \
        and ast.unparse(loops[0].body[0].test) == "user_gate in self.user_gates and (not overwrite_user_gates)" \
        and [ast.unparse(x) for x in loops[0].body[0].body] == ["continue"] and not loops[0].body[0].orelse \
        and ast.unparse(loops[0].body[1]) == "self.user_gates[user_gate] = qc.user_gates[user_gate]"
    if not ok:
        raise TranslatorError("QubitCircuit.add_circuit: inheritance loop of the user gates not recognised")
    return "new-dict-per-circuit"


def lean_bool(b):
    return "true" if b else "false"


def render(tables=None):
    d = extract(tables)
    acc, dflt = d["policy"]
    L = ["import QipVerif.Model.GateCtor",
         "/-! GENERATED by py/translate/gatector.py from /repo/src/qutip_qip/operations/gateclass.py — do not edit.",
         "The constructors of the gate classes: for every key of GATE_CLASS_MAP, for `ControlledGate` with each single-qubit",
         "target class (`ControlledGate:<Class>`) and for the generic `Gate(name)` (`Gate:<NAME>`) the guards of the `__init__`",
         "chain and how `get_compact_qobj` uses `control_value`; `ctorPolicy` is the guard of `_OneControlledGate.__init__`. -/",
         "namespace QipVerif.Gen.G\nopen QipVerif.GateCtor\n",
         f"def ctorPolicy : Policy := ⟨[{', '.join(str(a) for a in acc)}], {dflt}⟩\n",
         "def ctorTable : List ClassInfo :=\n  ["]
    rows = []
    for e in d["entries"]:
        kind, lo, hi = arg_spec(e["spec"])
        a = {"noArg": ".noArg", "scalar": ".scalar", "unpack": f".unpack {lo}", "star": f".star {lo} {hi}"}[kind]
        e["argSpec"] = (kind, lo, hi)
        rows.append(
            f'{{ key := "{e["key"]}", arity := .{e["arity"]}, oneCtrl := {lean_bool(e["oneCtrl"])}, '
            f'controlled := {lean_bool(e["controlled"])}, generic := {lean_bool(e["generic"])}, '
            f'cvRequired := {lean_bool(e["cvRequired"])}, fwdCV := {lean_bool(e["fwdCV"])}, usesCV := {lean_bool(e["usesCV"])},\n'
            f'     argRequired := {lean_bool(e["argRequired"])}, tgArgRequired := {lean_bool(e["tgArgRequired"])}, '
            f'fixedGuard := {lean_bool(e["fixedGuard"])}, argSpec := {a}, spec := "{e["spec"]}" }}')
    L.append("   " + ",\n   ".join(rows) + "]\n")
    L.append("/-- `QubitCircuit._get_gate_unitary(gate)` for a library gate (extracted from circuit.py; the method and\n"
             "`propagators` write no state of the circuit) -/")
    L.append(f'def circuitGateUnitary : String := "{circuit_unitary_rule()}"\n')
    L.append("/-- `Gate.get_qobj(dims)` and `propagators(expand=True)`: the compact matrix expanded with targets = the stored\n"
             "controls followed by the targets (extracted; no class overrides get_qobj / get_all_qubits) -/")
    L.append(f'def gateGetQobj : String := "{get_qobj_rule()}"\n')
    L.append("/-- how `Gate.__init__` keeps `targets` / `controls` given as a sequence: \"as-given\" (the caller's object; ControlledGate\n"
             "then re-wraps a non-list into a one-element list) or \"list-copy\" (fix C09-5: `list(x)`, every sequence a new list).\n"
             "The model `GateCtor` covers integers and lists, for which both variants build the same object. -/")
    L.append(f'def gateInitQubits : String := "{d["qubits"]}"\n')
    L.append("/-- a circuit built without `user_gates` gets a NEW empty dictionary (immutable parameter defaults, containers\n"
             "created per object, no class-level containers; the only store into it outside `__init__` is the inheritance\n"
             "loop of `add_circuit`) — extracted from circuit.py / gateclass.py / circuitsimulator.py -/")
    L.append(f'def circuitDefaultUserGates : String := "{circuit_fresh_rule()}"\n')
    L.append("end QipVerif.Gen.G")
    return "\n".join(L) + "\n", d


def regenerate(tables=None):
    from translate.decomp import write_if_changed
    src, d = render(tables)
    changed = write_if_changed(os.path.join(LEAN, "QipVerif", "Gen", "GateCtor.lean"), src)
    return changed, d
