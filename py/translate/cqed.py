"""Regenerates lean/QipVerif/Gen/CqedTables.lean and lean/QipVerif/Gen/ScqTables.lean from /repo with `ast`
(no import of the package).  Property C18.

What is read

* compiler/cavityqedcompiler.py   gate -> method map of `CavityQEDCompiler` (+ base class entries), classified;
                                  `_rotation_compiler` (area formula, parameter and label index);
                                  `__init__` (`self.wq`, `self.Delta`); `_swap_compiler`: the four held channels with
                                  their coefficient expressions, the effective coupling `J`, the optional reversal
                                  `if J < 0: area = 1 - area` (fixes/C18-1.patch), the rectangular pulse, the two RZ
                                  corrections and the global-phase bookkeeping; the areas / correction angles of
                                  `iswap_compiler`, `sqrtiswap_compiler`
* compiler/circuitqedcompiler.py  gate -> method map of `SCQubitsCompiler`, default `args`; `_rotation_compiler`
                                  (area formula, DRAG / plain branches), `_drag_pulse` (the three quadratures),
                                  `rzx_compiler` (index into `zx_coeff`, area — signed after fixes/C18-2.patch —,
                                  rescale factor, label), `cnot_compiler` (the five-gate sequence with its angles)
* compiler/gatecompiler.py        `generate_pulse_shape` (coefficient and time scaling), `_normalized_window`
                                  (rectangular; the analytical window formulas and their `t_max`), `compile`
                                  (reset of the global phase, dropping of zero-duration instructions)
* device/cavityqed.py             `CavityQEDModel`: defaults, `_compute_params` (aliases, `wq`, `Delta`, the two
                                  regime warnings), `_set_up_controls`; `DispersiveCavityQED`: native gates, default
                                  compiler construction, hand-back of the global phase, `eliminate_auxillary_modes`
* device/circuitqed.py            `SCQubitsModel`: defaults, `_compute_params` (dressed frequencies, `J`, `zx_coeff`),
                                  `_set_up_controls`, `_set_up_drift`; `SCQubits`: native gates, default compiler

Arithmetic expressions are translated TERM BY TERM into Lean functions over `DArith α` (Model/DevArith.lean:
`Float` in the driver, `ℝ` in the theorems); index expressions into `Int` expressions.  Statement sequences that
carry no formula are compared structurally with the shapes the hand model (Model/Cqed.lean) describes; anything
else raises TranslatorError."""
import ast, os
from fractions import Fraction

from vlib.core import TranslatorError
from vlib import paths
from translate.spinchain import (_parse, _cls, _meth, _func, _body, _dump, _is_attr, _same, _same_stmt, Ix,
                                 const_fraction, _label_expr)

OUT_CQ = os.path.join(paths.LEAN, "QipVerif", "Gen", "CqedTables.lean")
OUT_SCQ = os.path.join(paths.LEAN, "QipVerif", "Gen", "ScqTables.lean")


class ArD:
    """Python arithmetic expression -> Lean term over `DArith α`.  `env`: source text of a sub-expression
    (`ast.unparse`) -> Lean term."""

    def __init__(self, env, src, what):
        self.env = {self.norm(k): v for k, v in env.items()}
        self.src, self.what = src, what

    @staticmethod
    def norm(code):
        return ast.unparse(ast.parse(code, mode="eval").body)

    def bad(self, n):
        raise TranslatorError(f"{self.what}: unsupported expression `{ast.unparse(n)}`")

    def const(self, n):
        seg = ast.get_source_segment(self.src, n)
        try:
            f = Fraction(seg)
        except (ValueError, TypeError):
            f = Fraction(n.value)
        if f < 0:
            self.bad(n)
        return f"(DArith.ofFrac {f.numerator} {f.denominator})"

    def tr(self, n):
        k = ast.unparse(n)
        if k in self.env:
            return self.env[k]
        if isinstance(n, (ast.Name, ast.Attribute, ast.Subscript)):
            self.bad(n)
        if isinstance(n, ast.Constant) and isinstance(n.value, (int, float)) and not isinstance(n.value, bool):
            return self.const(n)
        if isinstance(n, ast.UnaryOp) and isinstance(n.op, ast.USub):
            return f"(DArith.neg {self.tr(n.operand)})"
        if isinstance(n, ast.UnaryOp) and isinstance(n.op, ast.UAdd):
            return self.tr(n.operand)
        if isinstance(n, ast.BinOp):
            if isinstance(n.op, ast.Pow):
                if isinstance(n.right, ast.Constant) and n.right.value in (2, 3) and isinstance(n.right.value, int):
                    b = self.tr(n.left)
                    return f"(DArith.mul {b} {b})" if n.right.value == 2 else f"(DArith.mul (DArith.mul {b} {b}) {b})"
                self.bad(n)
            op = {ast.Add: "add", ast.Sub: "sub", ast.Mult: "mul", ast.Div: "div"}.get(type(n.op))
            if op is None:
                self.bad(n)
            return f"(DArith.{op} {self.tr(n.left)} {self.tr(n.right)})"
        if isinstance(n, ast.Call) and len(n.args) == 1 and not n.keywords:
            f = ast.unparse(n.func)
            if f in ("abs", "np.abs", "np.absolute"):
                return f"(DArith.abs {self.tr(n.args[0])})"
            if f == "np.sign":
                return f"(DArith.sign {self.tr(n.args[0])})"
            if f == "np.sqrt":
                return f"(DArith.sqrt {self.tr(n.args[0])})"
            if f == "np.cos":
                return f"(DArith.cos {self.tr(n.args[0])})"
        self.bad(n)

    def cond(self, n):
        """`a < b` / `a > b` / `a < b < c` -> Bool term"""
        if isinstance(n, ast.Compare) and len(n.ops) >= 1:
            terms = [self.tr(n.left)] + [self.tr(c) for c in n.comparators]
            parts = []
            for k, op in enumerate(n.ops):
                l, r = terms[k], terms[k + 1]
                if isinstance(op, ast.Lt):
                    parts.append(f"(DArith.lt {l} {r})")
                elif isinstance(op, ast.Gt):
                    parts.append(f"(DArith.lt {r} {l})")
                else:
                    self.bad(n)
            return parts[0] if len(parts) == 1 else "(" + " && ".join(parts) + ")"
        self.bad(n)


PI_ENV = {"np.pi": "pi"}


def frac_term(f):
    return f"(DArith.ofFrac {f.numerator} {f.denominator})"


def _dict_of(node, what):
    if not isinstance(node, ast.Dict):
        raise TranslatorError(f"{what}: not a dict literal")
    out = []
    for k, v in zip(node.keys, node.values):
        if not (isinstance(k, ast.Constant) and isinstance(k.value, str) and isinstance(v, ast.Attribute)
                and isinstance(v.value, ast.Name) and v.value.id == "self"):
            raise TranslatorError(f"{what}: entry is not `\"NAME\": self.<method>`")
        out.append((k.value, v.attr))
    return out


def _gate_map(cls, base, cname):
    gmap = {}
    found = False
    for st in ast.walk(_meth(base, "__init__")):
        if isinstance(st, ast.Assign) and len(st.targets) == 1 and _is_attr(st.targets[0], "self", "gate_compiler") \
                and isinstance(st.value, ast.Dict) and st.value.keys:
            for k, m in _dict_of(st.value, "GateCompiler.__init__ gate_compiler"):
                gmap[k] = m
            found = True
    if not found:
        raise TranslatorError("GateCompiler.__init__: gate_compiler dict literal not found")
    found = False
    for st in ast.walk(_meth(cls, "__init__")):
        if (isinstance(st, ast.Call) and isinstance(st.func, ast.Attribute) and st.func.attr == "update"
                and _is_attr(st.func.value, "self", "gate_compiler") and len(st.args) == 1):
            for k, m in _dict_of(st.args[0], f"{cname}.__init__ gate_compiler.update"):
                gmap[k] = m
            found = True
    if not found:
        raise TranslatorError(f"{cname}.__init__: self.gate_compiler.update({{...}}) not found")
    return gmap


def _resolver(cls, src, base, srcb):
    def resolve(mname):
        m = _meth(cls, mname, required=False)
        if m is not None:
            return m, src
        m = _meth(base, mname, required=False)
        if m is not None:
            return m, srcb
        raise TranslatorError(f"compiler method {mname} not found")
    return resolve


def _rotation_area(rot, src, cname, n_stmts_before_return):
    """`coeff, tlist = self.generate_pulse_shape(args["shape"], args["num_samples"], maximum=self.params[param_label]
    [targets[0]], area=<formula>)` -> Lean term of the area formula"""
    if [a.arg for a in rot.args.args] != ["self", "gate", "op_label", "param_label", "args"]:
        raise TranslatorError(f"{cname}._rotation_compiler: signature changed")
    rb = _body(rot)
    if not (rb and _same_stmt(rb[0], "targets = gate.targets")
            and _same_stmt(rb[-1], "return [Instruction(gate, tlist, pulse_info)]")):
        raise TranslatorError(f"{cname}._rotation_compiler: unrecognised first/last statement")
    st = rb[1]
    if not (isinstance(st, ast.Assign) and _dump(st.targets[0]) == _dump(ast.parse("coeff, tlist = 0").body[0].targets[0])
            and isinstance(st.value, ast.Call) and _is_attr(st.value.func, "self", "generate_pulse_shape")
            and len(st.value.args) == 2 and _same(st.value.args[0], 'args["shape"]')
            and _same(st.value.args[1], 'args["num_samples"]')
            and sorted(k.arg for k in st.value.keywords) == ["area", "maximum"]):
        raise TranslatorError(f"{cname}._rotation_compiler: call of generate_pulse_shape not recognised")
    kw = {k.arg: k.value for k in st.value.keywords}
    if not _same(kw["maximum"], "self.params[param_label][targets[0]]"):
        raise TranslatorError(f"{cname}._rotation_compiler: maximum is not self.params[param_label][targets[0]]")
    env = dict(PI_ENV)
    env["gate.arg_value"] = "theta"
    return ArD(env, src, f"{cname}._rotation_compiler area").tr(kw["area"]), rb


# ------------------------------------------------------------------------------------------
# gatecompiler.py: generate_pulse_shape, windows, compile flags

def _pulse_shape():
    relb = "compiler/gatecompiler.py"
    treeb, srcb = _parse(relb)
    base = _cls(treeb, "GateCompiler", relb)
    gp = _meth(base, "generate_pulse_shape")
    if [a.arg for a in gp.args.args] != ["cls", "shape", "num_samples", "maximum", "area"]:
        raise TranslatorError("generate_pulse_shape: signature changed")
    gb = _body(gp)
    if not (gb and _same_stmt(gb[0], "coeff, tlist = _normalized_window(shape, num_samples)")
            and _same_stmt(gb[-1], "return coeff, tlist")):
        raise TranslatorError("generate_pulse_shape: first/last statement not recognised")
    env = {"maximum": "maximum", "area": "area", "coeff": "c0", "tlist": "t0"}
    for st in gb[1:-1]:
        ar = ArD(dict(env), srcb, "generate_pulse_shape")
        if isinstance(st, ast.Assign) and len(st.targets) == 1 and isinstance(st.targets[0], ast.Name):
            env[st.targets[0].id] = ar.tr(st.value)
        elif isinstance(st, ast.AugAssign) and isinstance(st.target, ast.Name) and st.target.id in env:
            op = {ast.Add: "add", ast.Sub: "sub", ast.Mult: "mul", ast.Div: "div"}.get(type(st.op))
            if op is None:
                raise TranslatorError("generate_pulse_shape: unsupported augmented assignment")
            env[st.target.id] = f"(DArith.{op} {env[st.target.id]} {ar.tr(st.value)})"
        else:
            raise TranslatorError("generate_pulse_shape: unsupported statement")
    pulse_coeff, pulse_dur = env["coeff"], env["tlist"]
    # _normalized_window
    nw = _func(treeb, "_normalized_window", relb)
    nb = _body(nw)
    want = ["t_max = _default_window_t_max.get(shape, None)",
            "tlist = np.linspace(0, t_max, num_samples)",
            "return coeff, tlist"]
    have = [_dump(s) for s in nb]
    for w in want:
        if _dump(ast.parse(w).body[0]) not in have:
            raise TranslatorError(f"_normalized_window: `{w}` not found")
    rect = None
    analytic_branch = False
    for st in nb:
        if isinstance(st, ast.If) and _same(st.test, 'shape == "rectangular"') and len(st.body) == 1 \
                and isinstance(st.body[0], ast.Return) and isinstance(st.body[0].value, ast.Tuple):
            rect = [const_fraction(e, srcb, "_normalized_window") for e in st.body[0].value.elts]
        if isinstance(st, ast.If) and _same(st.test, "shape in _analytical_window") and len(st.body) == 1 \
                and _same_stmt(st.body[0], "coeff = _analytical_window[shape](tlist)"):
            analytic_branch = True
    if rect is None or len(rect) != 2:
        raise TranslatorError("_normalized_window: rectangular branch not recognised")
    if not analytic_branch:
        raise TranslatorError("_normalized_window: analytical-window branch not recognised")
    tmax, analytic = {}, {}
    for n in treeb.body:
        if isinstance(n, ast.Assign) and isinstance(n.targets[0], ast.Name) and isinstance(n.value, ast.Dict):
            if n.targets[0].id == "_default_window_t_max":
                for k, v in zip(n.value.keys, n.value.values):
                    try:
                        tmax[k.value] = const_fraction(v, srcb, "t_max")
                    except TranslatorError:
                        tmax[k.value] = None          # np.pi / 2.0 (cosine): not used by the modelled windows
            if n.targets[0].id == "_analytical_window":
                for k, v in zip(n.value.keys, n.value.values):
                    if not (isinstance(v, ast.Lambda) and [a.arg for a in v.args.args] == ["t"]):
                        raise TranslatorError("_analytical_window: entry is not `lambda t: ...`")
                    env2 = dict(PI_ENV)
                    env2["t"] = "u"
                    analytic[k.value] = ArD(env2, srcb, f"_analytical_window[{k.value}]").tr(v.body)
    if "hann" not in analytic or tmax.get("hann") is None:
        raise TranslatorError("the analytical hann window / its t_max was not found")
    # compile: reset of the phase, zero-duration filter
    comp = _meth(base, "compile")
    resets = False
    seen_loop = False
    for st in _body(comp):
        if isinstance(st, ast.For):
            seen_loop = True
            break
        if isinstance(st, ast.Assign) and _is_attr(st.targets[0], "self", "global_phase"):
            if const_fraction(st.value, srcb, "compile: global_phase reset") != 0:
                raise TranslatorError("compile: global_phase is set to a non-zero constant")
            resets = True
    if not seen_loop:
        raise TranslatorError("compile: gate loop not found")
    old = _dump(ast.parse("instruction_list += instruction").body[0])
    new = _dump(ast.parse("instruction_list += [ins for ins in instruction if ins.duration != 0]").body[0])
    drops = None
    for n in ast.walk(comp):
        if isinstance(n, ast.AugAssign) and isinstance(n.target, ast.Name) and n.target.id == "instruction_list":
            if _dump(n) == old:
                drops = False
            elif _dump(n) == new:
                drops = True
            else:
                raise TranslatorError("compile: `instruction_list += …` has neither of the two modelled shapes")
    if drops is None:
        raise TranslatorError("compile: `instruction_list += …` not found")
    return dict(pulse_coeff=pulse_coeff, pulse_dur=pulse_dur, rect=rect, hann=analytic["hann"], hann_tmax=tmax["hann"],
                resets=resets, drops=drops, base=base, srcb=srcb, treeb=treeb)


def _classify_methods(gmap, resolve, cname, extra):
    """`extra(gname, mname, method, src)` -> Lean Rule term or None"""
    rules = []
    for gname, mname in gmap.items():
        m, msrc = resolve(mname)
        body = _body(m)
        if [a.arg for a in m.args.args] != ["self", "gate", "args"]:
            raise TranslatorError(f"{cname}.{mname}: signature is not (self, gate, args)")
        if len(body) == 1 and isinstance(body[0], ast.Pass):
            rules.append((gname, ".noop"))
            continue
        if len(body) == 1 and _same_stmt(body[0], "self.global_phase += gate.arg_value"):
            rules.append((gname, ".phase"))
            continue
        if (len(body) == 2 and _same_stmt(body[0], "idle_time = gate.arg_value")
                and _same_stmt(body[1], "return [Instruction(gate, idle_time, [])]")):
            rules.append((gname, ".idle"))
            continue
        if len(body) == 1 and isinstance(body[0], ast.Return) and isinstance(body[0].value, ast.Call):
            c = body[0].value
            if _is_attr(c.func, "self", "_rotation_compiler") and len(c.args) == 4 and not c.keywords \
                    and _same(c.args[0], "gate") and _same(c.args[3], "args") \
                    and all(isinstance(a, ast.Constant) and isinstance(a.value, str) for a in c.args[1:3]):
                rules.append((gname, f'(.rotation "{c.args[1].value}" "{c.args[2].value}")'))
                continue
        r = extra(gname, mname, m, msrc)
        if r is None:
            raise TranslatorError(f"{cname}: compiler method {mname} (gate {gname}) has an unrecognised body")
        rules.append((gname, r))
    return rules


# ------------------------------------------------------------------------------------------
# cavity QED

def _cq_compiler(ps):
    rel = "compiler/cavityqedcompiler.py"
    tree, src = _parse(rel)
    cls = _cls(tree, "CavityQEDCompiler", rel)
    base, srcb = ps["base"], ps["srcb"]
    if [b.id for b in cls.bases if isinstance(b, ast.Name)] != ["GateCompiler"]:
        raise TranslatorError("CavityQEDCompiler no longer derives from GateCompiler only")
    gmap = _gate_map(cls, base, "CavityQEDCompiler")
    resolve = _resolver(cls, src, base, srcb)
    exch = []      # (gate name, area term, correction term)

    def extra(gname, mname, m, msrc):
        body = [s for s in _body(m)]
        if len(body) == 1 and isinstance(body[0], ast.Return) and isinstance(body[0].value, ast.Call) \
                and _is_attr(body[0].value.func, "self", "_swap_compiler"):
            c = body[0].value
            kw = {k.arg: k.value for k in c.keywords}
            if len(c.args) == 1 and _same(c.args[0], "gate") and set(kw) == {"area", "correction_angle", "args"} \
                    and _same(kw["args"], "args"):
                area = const_fraction(kw["area"], msrc, f"{mname}: area")
                corr = ArD(PI_ENV, msrc, f"{mname}: correction_angle").tr(kw["correction_angle"])
                exch.append((gname, area, corr))
                return f"(.exchange {len(exch) - 1})"
        return None

    rules = _classify_methods(gmap, resolve, "CavityQEDCompiler", extra)
    rot_area, rb = _rotation_area(_meth(cls, "_rotation_compiler"), src, "CavityQEDCompiler", 4)
    if len(rb) != 4:
        raise TranslatorError("CavityQEDCompiler._rotation_compiler: unrecognised statement sequence")
    st = rb[2]
    if not (isinstance(st, ast.Assign) and _same(st.targets[0], "pulse_info") and isinstance(st.value, ast.List)
            and len(st.value.elts) == 1 and isinstance(st.value.elts[0], ast.Tuple) and len(st.value.elts[0].elts) == 2
            and _same(st.value.elts[0].elts[1], "coeff")):
        raise TranslatorError("CavityQEDCompiler._rotation_compiler: pulse_info not recognised")
    pre, idx = _label_expr(st.value.elts[0].elts[0], "_rotation_compiler")
    if pre != "$op_label" or not _same(idx, "targets[0]"):
        raise TranslatorError("CavityQEDCompiler._rotation_compiler: label is not op_label + str(targets[0])")
    # __init__: wq, Delta, global_phase
    init = _meth(cls, "__init__")
    ib = _body(init)
    wq = delta = None
    gp_ok = False
    for st in ib:
        if isinstance(st, ast.Assign) and _is_attr(st.targets[0], "self", "wq"):
            wq = ArD({'self.params["eps"]': "eps", 'self.params["delta"]': "delta"}, src, "CavityQEDCompiler.wq").tr(st.value)
        if isinstance(st, ast.Assign) and _is_attr(st.targets[0], "self", "Delta"):
            delta = ArD({"self.wq": "wq", 'self.params["w0"]': "w0"}, src, "CavityQEDCompiler.Delta").tr(st.value)
        if _same_stmt(st, "self.global_phase = global_phase"):
            gp_ok = True
    if wq is None or delta is None or not gp_ok:
        raise TranslatorError("CavityQEDCompiler.__init__: self.wq / self.Delta / self.global_phase not recognised")
    # _swap_compiler
    sw = _meth(cls, "_swap_compiler")
    if [a.arg for a in sw.args.args] != ["self", "gate", "area", "correction_angle", "args"]:
        raise TranslatorError("_swap_compiler: signature changed")
    sb = _body(sw)
    pos = 0

    def expect(code):
        nonlocal pos
        if pos >= len(sb) or not _same_stmt(sb[pos], code):
            got = ast.unparse(sb[pos]) if pos < len(sb) else "<end>"
            raise TranslatorError(f"_swap_compiler: expected `{code}`, found `{got}`")
        pos += 1

    expect("q1, q2 = gate.targets")
    expect("pulse_info = []")
    held = []        # (prefix, qref, coefficient term)
    cenv = {"self.wq[q1]": "wq1", "self.wq[q2]": "wq2", 'self.params["w0"]': "w0",
            'self.params["g"][q1]': "g1", 'self.params["g"][q2]': "g2",
            "self.Delta[q1]": "D1", "self.Delta[q2]": "D2"}
    while pos + 2 < len(sb) and isinstance(sb[pos], ast.Assign) and _same(sb[pos].targets[0], "pulse_name"):
        pre, idx = _label_expr(sb[pos].value, "_swap_compiler")
        if pre.startswith("$") or not (_same(idx, "q1") or _same(idx, "q2")):
            raise TranslatorError("_swap_compiler: held channel label is not `\"<prefix>\" + str(q1|q2)`")
        st = sb[pos + 1]
        if not (isinstance(st, ast.Assign) and _same(st.targets[0], "coeff")):
            raise TranslatorError("_swap_compiler: `coeff = …` expected after pulse_name")
        co = ArD(cenv, src, "_swap_compiler held coefficient").tr(st.value)
        pos += 2
        expect("pulse_info += [(pulse_name, coeff)]")
        held.append((pre, "q1" if _same(idx, "q1") else "q2", co))
    if not held:
        raise TranslatorError("_swap_compiler: no held channel found")
    st = sb[pos]
    if not (isinstance(st, ast.Assign) and _same(st.targets[0], "J")):
        raise TranslatorError("_swap_compiler: `J = …` not found")
    J = ArD(cenv, src, "_swap_compiler J").tr(st.value)
    pos += 1
    flips = False
    if pos < len(sb) and isinstance(sb[pos], ast.If):
        if _dump(sb[pos]) == _dump(ast.parse("if J < 0:\n    area = 1 - area").body[0]):
            flips = True
            pos += 1
        else:
            raise TranslatorError("_swap_compiler: unrecognised `if` after J")
    expect('coeff, tlist = self.generate_pulse_shape("rectangular", None, maximum=J, area=area)')
    expect("instruction_list = [Instruction(gate, tlist, pulse_info)]")
    corr = []
    for k, q in ((1, "q1"), (2, "q2")):
        expect(f'gate{k} = Gate("RZ", [{q}], None, arg_value=correction_angle)')
        expect(f'compiled_gate{k} = self.gate_compiler["RZ"](gate{k}, args)')
        expect(f"instruction_list += compiled_gate{k}")
        corr.append(("RZ", q))
    expect('gate3 = Gate("GLOBALPHASE", None, None, arg_value=correction_angle)')
    expect("self.globalphase_compiler(gate3, args)")
    expect("return instruction_list")
    if pos != len(sb):
        raise TranslatorError("_swap_compiler: trailing statements")
    gpm, _ = resolve("globalphase_compiler")
    if not (len(_body(gpm)) == 1 and _same_stmt(_body(gpm)[0], "self.global_phase += gate.arg_value")):
        raise TranslatorError("CavityQEDCompiler.globalphase_compiler does not accumulate the phase")
    return dict(rules=rules, rot_area=rot_area, exch=exch, wq=wq, delta=delta, held=held, J=J, flips=flips, corr=corr)


def _assign_of(body, target_code):
    for st in body:
        if isinstance(st, ast.Assign) and len(st.targets) == 1 and _same(st.targets[0], target_code):
            return st.value
    return None


def _cq_model():
    rel = "device/cavityqed.py"
    tree, src = _parse(rel)
    mdl = _cls(tree, "CavityQEDModel", rel)
    init = _meth(mdl, "__init__")
    defaults = None
    for st in ast.walk(init):
        if isinstance(st, ast.Assign) and _is_attr(st.targets[0], "self", "params") and isinstance(st.value, ast.Dict):
            defaults = {}
            for k, v in zip(st.value.keys, st.value.values):
                defaults[k.value] = const_fraction(v, src, "CavityQEDModel defaults")
    if defaults is None or sorted(defaults) != ["delta", "deltamax", "eps", "epsmax", "g", "w0"]:
        raise TranslatorError("CavityQEDModel.__init__: default parameter dict not recognised")
    if not any(_same_stmt(st, "self.dims = [num_levels] + [2] * num_qubits") for st in _body(init)):
        raise TranslatorError("CavityQEDModel.__init__: dims is not [num_levels] + [2] * num_qubits")
    cp = _body(_meth(mdl, "_compute_params"))
    pos = 0

    def expect(code):
        nonlocal pos
        if pos >= len(cp) or not _same_stmt(cp[pos], code):
            got = ast.unparse(cp[pos]) if pos < len(cp) else "<end>"
            raise TranslatorError(f"CavityQEDModel._compute_params: expected `{code}`, found `{got}`")
        pos += 1

    expect("num_qubits = self.num_qubits")
    expect('w0 = self.params["w0"]')
    expect('for name in ["epsmax", "deltamax", "eps", "delta", "g"]:\n    self.params[name] = _to_array(self.params[name], num_qubits)')
    alias = []
    while pos < len(cp) and isinstance(cp[pos], ast.Assign) and isinstance(cp[pos].value, ast.Subscript) \
            and _same(cp[pos].value.value, "self.params") and isinstance(cp[pos].targets[0], ast.Subscript) \
            and _same(cp[pos].targets[0].value, "self.params"):
        alias.append((cp[pos].targets[0].slice.value, cp[pos].value.slice.value))
        pos += 1
    st = cp[pos]
    if not (isinstance(st, ast.Assign) and _same(st.targets[0], "wq")):
        raise TranslatorError("CavityQEDModel._compute_params: `wq = …` not found")
    wq = ArD({'self.params["eps"]': "eps", 'self.params["delta"]': "delta"}, src, "CavityQEDModel wq").tr(st.value)
    pos += 1
    expect('self.params["wq"] = wq')
    st = cp[pos]
    if not (isinstance(st, ast.Assign) and _same(st.targets[0], 'self.params["Delta"]')):
        raise TranslatorError("CavityQEDModel._compute_params: `self.params[\"Delta\"] = …` not found")
    delta = ArD({"wq": "wq", "w0": "w0"}, src, "CavityQEDModel Delta").tr(st.value)
    pos += 1
    warns = []
    wenv = {'self.params["g"]': "g", "w0": "w0", "wq": "wq"}
    while pos < len(cp):
        st = cp[pos]
        if not (isinstance(st, ast.If) and isinstance(st.test, ast.Call) and _same(st.test.func, "any")
                and len(st.test.args) == 1 and len(st.body) == 1 and isinstance(st.body[0], ast.Expr)
                and isinstance(st.body[0].value, ast.Call) and _same(st.body[0].value.func, "warnings.warn")):
            raise TranslatorError("CavityQEDModel._compute_params: unrecognised statement after Delta")
        msg = st.body[0].value.args[0].value
        warns.append((msg, ArD(wenv, src, "regime warning").cond(st.test.args[0])))
        pos += 1
    if len(warns) != 2:
        raise TranslatorError("CavityQEDModel._compute_params: expected the two regime warnings")
    # controls
    su = _body(_meth(mdl, "_set_up_controls"))
    want = """
controls = {}
num_qubits = self.num_qubits
num_levels = self.num_levels
for m in range(num_qubits):
    controls["sx" + str(m)] = (COEF1 * sigmax(), [m + 1])
for m in range(num_qubits):
    controls["sz" + str(m)] = (COEF2 * sigmaz(), [m + 1])
a = tensor([destroy(num_levels)] + [identity(2) for n in range(num_qubits)])
for n in range(num_qubits):
    sm = tensor([identity(num_levels)] + [destroy(2) if m == n else identity(2) for m in range(num_qubits)])
    controls["g" + str(n)] = (COEF3 * a.dag() * sm + COEF4 * a * sm.dag(), list(range(num_qubits + 1)))
return controls
"""
    coefs = {}

    class Abstract(ast.NodeTransformer):
        """replace the numeric prefactors `2 * np.pi` by placeholders, collecting them"""
        def __init__(self):
            self.k = 0

        def visit_BinOp(self, n):
            if isinstance(n.op, ast.Mult) and ast.unparse(n) in ("2 * np.pi",):
                pass
            return self.generic_visit(n)

    def split_coef(expr, what):
        """`<coef> * <operator>` where coef is arithmetic in np.pi"""
        if not (isinstance(expr, ast.BinOp) and isinstance(expr.op, ast.Mult)):
            raise TranslatorError(f"{what}: Hamiltonian is not <coefficient> * <operator>")
        return expr.left, expr.right

    ctl = []
    loops = [s for s in su if isinstance(s, ast.For)]
    if len(loops) != 3:
        raise TranslatorError("CavityQEDModel._set_up_controls: expected three loops")
    for lp, (pre, opname) in zip(loops[:2], (("sx", "sigmax"), ("sz", "sigmaz"))):
        if not (_same(lp.iter, "range(num_qubits)") and len(lp.body) == 1 and isinstance(lp.body[0], ast.Assign)
                and isinstance(lp.body[0].value, ast.Tuple) and len(lp.body[0].value.elts) == 2):
            raise TranslatorError("CavityQEDModel._set_up_controls: single-qubit loop not recognised")
        var = lp.target.id
        p, idx = _label_expr(lp.body[0].targets[0].slice, "_set_up_controls")
        ham, tg = lp.body[0].value.elts
        cnode, onode = split_coef(ham, "CavityQEDModel._set_up_controls")
        if p != pre or not _same(idx, var) or not _same(onode, opname + "()") \
                or not (isinstance(tg, ast.List) and len(tg.elts) == 1):
            raise TranslatorError(f"CavityQEDModel._set_up_controls: control {pre} not recognised")
        factor = Ix({var: "n", "num_qubits": "N"}, src, "control targets").i(tg.elts[0])
        ctl.append(dict(prefix=pre, coef=ArD(PI_ENV, src, "control coefficient").tr(cnode),
                        op=opname[-1], factor=factor))
    # the coupling loop, compared structurally with the two prefactors abstracted
    lp = loops[2]
    a_ok = any(_same_stmt(s, "a = tensor([destroy(num_levels)] + [identity(2) for n in range(num_qubits)])") for s in su)
    if not (a_ok and _same(lp.iter, "range(num_qubits)") and len(lp.body) == 2
            and _same_stmt(lp.body[0], "sm = tensor([identity(num_levels)] + [destroy(2) if m == n else identity(2) "
                                       "for m in range(num_qubits)])")
            and isinstance(lp.body[1], ast.Assign) and isinstance(lp.body[1].value, ast.Tuple)):
        raise TranslatorError("CavityQEDModel._set_up_controls: coupling loop not recognised")
    p, idx = _label_expr(lp.body[1].targets[0].slice, "_set_up_controls")
    ham, tg = lp.body[1].value.elts
    if not (p == "g" and _same(idx, lp.target.id) and _same(tg, "list(range(num_qubits + 1))")
            and isinstance(ham, ast.BinOp) and isinstance(ham.op, ast.Add)):
        raise TranslatorError("CavityQEDModel._set_up_controls: coupling control not recognised")
    gco = []
    for term, tail in ((ham.left, ("a.dag()", "sm")), (ham.right, ("a", "sm.dag()"))):
        # (<coef> * X) * Y
        if not (isinstance(term, ast.BinOp) and isinstance(term.op, ast.Mult) and _same(term.right, tail[1])
                and isinstance(term.left, ast.BinOp) and isinstance(term.left.op, ast.Mult)
                and _same(term.left.right, tail[0])):
            raise TranslatorError("CavityQEDModel._set_up_controls: coupling term is not <coef> * a(.dag()) * sm(.dag())")
        gco.append(ArD(PI_ENV, src, "coupling coefficient").tr(term.left.left))
    # the processor
    proc = _cls(tree, "DispersiveCavityQED", rel)
    pinit = _body(_meth(proc, "__init__"))
    native = None
    for st in pinit:
        if isinstance(st, ast.Assign) and _is_attr(st.targets[0], "self", "native_gates") and isinstance(st.value, ast.List):
            native = [e.value for e in st.value.elts]
    if native is None:
        raise TranslatorError("DispersiveCavityQED.__init__: native_gates not found")
    spline = any(_same_stmt(st, 'self.spline_kind = "step_func"') for st in pinit)
    lc = _body(_meth(proc, "load_circuit"))
    hands = any(_same_stmt(st, "self.global_phase = compiler.global_phase") for st in lc)
    mk = any(_dump(n) == _dump(ast.parse("CavityQEDCompiler(self.num_qubits, self.params, global_phase=0.0)", mode="eval").body)
             for st in lc for n in ast.walk(st))
    if not mk:
        raise TranslatorError("DispersiveCavityQED.load_circuit: construction of the default compiler not recognised")
    el = _body(_meth(proc, "eliminate_auxillary_modes"))
    el_ok = (len(el) >= 2
             and _same_stmt(el[0], "psi_proj = tensor([basis(self.num_levels, 0)] + [identity(2) for n in range(self.num_qubits)])")
             and _same_stmt(el[1], "result = psi_proj.dag() * U * psi_proj"))
    if not el_ok:
        raise TranslatorError("DispersiveCavityQED.eliminate_auxillary_modes: projector on the cavity vacuum not recognised")
    return dict(defaults=defaults, alias=alias, wq=wq, delta=delta, warns=warns, ctl=ctl, gco=gco, native=native,
                step_func=spline, hands=hands)


# ------------------------------------------------------------------------------------------
# superconducting qubits

def _scq_compiler(ps):
    rel = "compiler/circuitqedcompiler.py"
    tree, src = _parse(rel)
    cls = _cls(tree, "SCQubitsCompiler", rel)
    base, srcb = ps["base"], ps["srcb"]
    if [b.id for b in cls.bases if isinstance(b, ast.Name)] != ["GateCompiler"]:
        raise TranslatorError("SCQubitsCompiler no longer derives from GateCompiler only")
    gmap = _gate_map(cls, base, "SCQubitsCompiler")
    resolve = _resolver(cls, src, base, srcb)

    def extra(gname, mname, m, msrc):
        if mname == "cnot_compiler":
            return ".cnot"
        if mname == "rzx_compiler":
            return ".rzx"
        return None

    rules = _classify_methods(gmap, resolve, "SCQubitsCompiler", extra)
    # default args
    args = None
    for st in _body(_meth(cls, "__init__")):
        if isinstance(st, ast.Assign) and _is_attr(st.targets[0], "self", "args") and isinstance(st.value, ast.Dict):
            args = {k.value: v for k, v in zip(st.value.keys, st.value.values)}
    if args is None or sorted(args) != ["DRAG", "num_samples", "params", "shape"]:
        raise TranslatorError("SCQubitsCompiler.__init__: default args not recognised")
    shape = args["shape"].value
    nsamp = args["num_samples"].value
    drag = args["DRAG"].value
    if shape != "hann" or not isinstance(nsamp, int) or not isinstance(drag, bool):
        raise TranslatorError("SCQubitsCompiler: default shape is not 'hann' / num_samples not an int / DRAG not a bool")
    # _rotation_compiler: the shape before fixes/C18-3.patch (maximum and area inside the call) or after it (amplitude
    # floor for small angles)
    rot = _meth(cls, "_rotation_compiler")
    tail = """
if args["DRAG"]:
    pulse_info = self._drag_pulse(op_label, coeff, tlist, targets[0])
elif op_label == "sx":
    pulse_info = [("sx" + str(targets[0]), coeff), ("sy" + str(targets[0]), np.zeros(len(coeff)))]
elif op_label == "sy":
    pulse_info = [("sx" + str(targets[0]), np.zeros(len(coeff))), ("sy" + str(targets[0]), coeff)]
else:
    raise RuntimeError("Unknown label.")
"""
    rb = _body(rot)
    if len(rb) == 5:
        rot_area, rb = _rotation_area(rot, src, "SCQubitsCompiler", 5)
        rot_max, rot_floor = "maximum", False
        rest = rb[2:]
    else:
        if [a.arg for a in rot.args.args] != ["self", "gate", "op_label", "param_label", "args"]:
            raise TranslatorError("SCQubitsCompiler._rotation_compiler: signature changed")
        if not (len(rb) == 8 and _same_stmt(rb[0], "targets = gate.targets")
                and isinstance(rb[1], ast.Assign) and _same(rb[1].targets[0], "area")
                and _same_stmt(rb[2], "maximum = self.params[param_label][targets[0]]")
                and isinstance(rb[3], ast.If) and not rb[3].orelse and len(rb[3].body) == 1
                and isinstance(rb[3].body[0], ast.Assign) and _same(rb[3].body[0].targets[0], "maximum")
                and _same_stmt(rb[4], 'coeff, tlist = self.generate_pulse_shape(args["shape"], args["num_samples"], '
                                      'maximum=maximum, area=area)')
                and _same_stmt(rb[7], "return [Instruction(gate, tlist, pulse_info)]")):
            raise TranslatorError("SCQubitsCompiler._rotation_compiler: unrecognised statement sequence")
        env = dict(PI_ENV)
        env["gate.arg_value"] = "theta"
        rot_area = ArD(env, src, "SCQubitsCompiler._rotation_compiler area").tr(rb[1].value)
        ar = ArD({"maximum": "maximum", "area": "area"}, src, "SCQubitsCompiler._rotation_compiler amplitude floor")
        rot_max = f"if {ar.cond(rb[3].test)} then {ar.tr(rb[3].body[0].value)} else maximum"
        rot_floor = True
        rest = rb[5:]
    if not (_same_stmt(rest[0], 'f = 2 * np.pi * self.params["wq"][targets[0]]')
            and _dump(rest[1]) == _dump(ast.parse(tail).body[0])):
        raise TranslatorError("SCQubitsCompiler._rotation_compiler: unrecognised statement sequence")
    # _drag_pulse
    dp = _meth(cls, "_drag_pulse")
    if [a.arg for a in dp.args.args] != ["self", "op_label", "coeff", "tlist", "target"]:
        raise TranslatorError("_drag_pulse: signature changed")
    db = _body(dp)
    if len(db) != 8:
        raise TranslatorError("_drag_pulse: unrecognised statement sequence")
    st = db[0]
    if not (isinstance(st, ast.Assign) and _same(st.targets[0], "dt_coeff")):
        raise TranslatorError("_drag_pulse: dt_coeff not found")
    drag_dt = ArD({"np.gradient(coeff, tlist[1] - tlist[0])": "grad", "np.pi": "pi"}, src, "_drag_pulse dt_coeff").tr(st.value)
    if "grad" not in drag_dt:
        raise TranslatorError("_drag_pulse: dt_coeff is not built from np.gradient(coeff, tlist[1] - tlist[0])")
    if not _same_stmt(db[1], 'alpha = self.params["alpha"][target]'):
        raise TranslatorError("_drag_pulse: alpha is not self.params[\"alpha\"][target]")
    st = db[2]
    if not (isinstance(st, ast.Assign) and _same(st.targets[0], "y_drag")):
        raise TranslatorError("_drag_pulse: y_drag not found")
    drag_y = ArD({"dt_coeff": "dt", "alpha": "alpha"}, src, "_drag_pulse y_drag").tr(st.value)
    st = db[3]
    if not (isinstance(st, ast.Assign) and _same(st.targets[0], "z_drag")):
        raise TranslatorError("_drag_pulse: z_drag not found")
    drag_z = ArD({"coeff": "c", "alpha": "alpha"}, src, "_drag_pulse z_drag").tr(st.value)
    st = db[4]
    if not (isinstance(st, ast.AugAssign) and _same(st.target, "coeff") and isinstance(st.op, ast.Add)):
        raise TranslatorError("_drag_pulse: `coeff += …` not found")
    drag_x = f"(DArith.add c {ArD({'coeff': 'c', 'alpha': 'alpha'}, src, '_drag_pulse x').tr(st.value)})"
    if not _same_stmt(db[5], 'pulse_info = [(op_label + str(target), coeff), ("sz" + str(target), z_drag)]'):
        raise TranslatorError("_drag_pulse: pulse_info not recognised")
    third = """
if op_label == "sx":
    pulse_info.append(("sy" + str(target), y_drag))
elif op_label == "sy":
    pulse_info.append(("sx" + str(target), -y_drag))
"""
    if not (_dump(db[6]) == _dump(ast.parse(third).body[0]) and _same_stmt(db[7], "return pulse_info")):
        raise TranslatorError("_drag_pulse: third quadrature not recognised")
    # rzx_compiler
    rz = _body(_meth(cls, "rzx_compiler"))
    pos = 0

    def expect(code):
        nonlocal pos
        if pos >= len(rz) or not _same_stmt(rz[pos], code):
            got = ast.unparse(rz[pos]) if pos < len(rz) else "<end>"
            raise TranslatorError(f"rzx_compiler: expected `{code}`, found `{got}`")
        pos += 1

    expect("result = []")
    expect("q1, q2 = gate.targets")
    st = rz[pos]
    ok = (isinstance(st, ast.If) and len(st.body) == 1 and len(st.orelse) == 1
          and all(isinstance(x, ast.Assign) and _same(x.targets[0], "zx_coeff") and isinstance(x.value, ast.Subscript)
                  and _same(x.value.value, 'self.params["zx_coeff"]') for x in (st.body[0], st.orelse[0])))
    if not ok:
        raise TranslatorError("rzx_compiler: choice of zx_coeff not recognised")
    ix = Ix({"q1": "q1", "q2": "q2"}, src, "rzx_compiler index")
    rzx_idx = f"if {ix.b(st.test)} then {ix.i(st.body[0].value.slice)} else {ix.i(st.orelse[0].value.slice)}"
    pos += 1
    st = rz[pos]
    if not (isinstance(st, ast.Assign) and _same(st.targets[0], "area")):
        raise TranslatorError("rzx_compiler: `area = …` not found")
    env = dict(PI_ENV)
    env["gate.arg_value"] = "theta"
    rzx_area = ArD(env, src, "rzx_compiler area").tr(st.value)
    signed = "theta" in rzx_area
    pos += 1
    expect('coeff, tlist = self.generate_pulse_shape(args["shape"], args["num_samples"], maximum=zx_coeff, area=area)')
    st = rz[pos]
    if not (isinstance(st, ast.Assign) and _same(st.targets[0], "area_rescale_factor")):
        raise TranslatorError("rzx_compiler: area_rescale_factor not found")
    rzx_rescale = ArD(env, src, "rzx_compiler rescale").tr(st.value)
    pos += 1
    expect("tlist *= area_rescale_factor")
    expect("coeff *= area_rescale_factor")
    expect('pulse_info = [("zx" + str(q1) + str(q2), coeff)]')
    expect("result += [Instruction(gate, tlist, pulse_info)]")
    expect("return result")
    # cnot_compiler
    cn = _body(_meth(cls, "cnot_compiler"))
    if not (len(cn) >= 4 and _same_stmt(cn[0], "result = []") and _same_stmt(cn[1], "q1 = gate.controls[0]")
            and _same_stmt(cn[2], "q2 = gate.targets[0]") and _same_stmt(cn[-1], "return result")):
        raise TranslatorError("cnot_compiler: unrecognised frame")
    seq = []
    body = cn[3:-1]
    if len(body) % 2:
        raise TranslatorError("cnot_compiler: statements do not come in (gate, compile) pairs")
    for k in range(0, len(body), 2):
        a, b = body[k], body[k + 1]
        gi = k // 2 + 1
        if not (isinstance(a, ast.Assign) and _same(a.targets[0], f"gate{gi}") and isinstance(a.value, ast.Call)
                and _same(a.value.func, "Gate") and isinstance(a.value.args[0], ast.Constant)):
            raise TranslatorError(f"cnot_compiler: gate{gi} not recognised")
        name = a.value.args[0].value
        kw = {x.arg: x.value for x in a.value.keywords}
        if len(a.value.args) == 2 and set(kw) == {"arg_value"}:
            tg = a.value.args[1]
        elif len(a.value.args) == 1 and set(kw) == {"targets", "arg_value"}:
            tg = kw["targets"]
        else:
            raise TranslatorError(f"cnot_compiler: gate{gi}: unrecognised arguments")
        if isinstance(tg, ast.List):
            refs = [ast.unparse(e) for e in tg.elts]
        else:
            refs = [ast.unparse(tg)]
        if any(r not in ("q1", "q2") for r in refs):
            raise TranslatorError(f"cnot_compiler: gate{gi}: targets are not q1/q2")
        ang = ArD(PI_ENV, src, f"cnot_compiler gate{gi} angle").tr(kw["arg_value"])
        if _same_stmt(b, f"result += self.gate_compiler[gate{gi}.name](gate{gi}, args)"):
            via = "map"
        elif _same_stmt(b, f"result += self.rzx_compiler(gate{gi}, args)"):
            via = "rzx"
            if name != "RZX":
                raise TranslatorError("cnot_compiler: rzx_compiler called for a gate that is not RZX")
        else:
            raise TranslatorError(f"cnot_compiler: compilation of gate{gi} not recognised")
        seq.append((name, refs, ang, via))
    return dict(rules=rules, shape=shape, nsamp=nsamp, drag=drag, rot_area=rot_area, rot_max=rot_max, rot_floor=rot_floor, drag_dt=drag_dt, drag_y=drag_y,
                drag_z=drag_z, drag_x=drag_x, rzx_idx=rzx_idx, rzx_area=rzx_area, signed=signed, rzx_rescale=rzx_rescale,
                seq=seq)


class LoopTr:
    """`for i in range(<bound>): tmp = e; [if c:] tmp (+|-)= e; …; name.append(tmp)` -> Lean let-chains"""

    def __init__(self, env, ienv, src, what):
        self.env, self.ienv, self.src, self.what = env, ienv, src, what

    def arr_env(self, expr_nodes):
        """collect `name[<index expr>]` sub-expressions of the arrays in self.env -> (getI name idx)"""
        env = dict(PI_ENV)
        ix = Ix(self.ienv, self.src, self.what + " index")
        for root in expr_nodes:
            for n in ast.walk(root):
                if isinstance(n, ast.Subscript) and isinstance(n.value, ast.Name) and n.value.id in self.env:
                    env[ast.unparse(n)] = f"(getI {self.env[n.value.id]} {ix.i(n.slice)})"
        return env

    def body(self, stmts, appended_to):
        """-> list of Lean terms, one per `appended_to.append(tmp)`"""
        out, cur = [], None
        ix = Ix(self.ienv, self.src, self.what + " condition")

        def expr(n):
            env = self.arr_env([n])
            if cur is not None:
                env["tmp"] = "tmp"
            return ArD(env, self.src, self.what).tr(n)

        def aug(st, guard=None):
            nonlocal cur
            op = {ast.Add: "add", ast.Sub: "sub"}.get(type(st.op))
            if op is None or not _same(st.target, "tmp") or cur is None:
                raise TranslatorError(f"{self.what}: unsupported augmented assignment `{ast.unparse(st)}`")
            new = f"(DArith.{op} tmp {expr(st.value)})"
            if guard is not None:
                new = f"(if {guard} then {new} else tmp)"
            cur = cur + [new]

        for st in stmts:
            if isinstance(st, ast.Assign) and _same(st.targets[0], "tmp"):
                if cur is not None:
                    raise TranslatorError(f"{self.what}: value overwritten before it is appended")
                cur = [expr(st.value)]
            elif isinstance(st, ast.AugAssign):
                aug(st)
            elif isinstance(st, ast.If) and not st.orelse and len(st.body) == 1 and isinstance(st.body[0], ast.AugAssign):
                aug(st.body[0], ix.b(st.test))
            elif _same_stmt(st, f"{appended_to}.append(tmp)"):
                if cur is None:
                    raise TranslatorError(f"{self.what}: append before assignment")
                lets = "".join(f"let tmp : α := {t}; " for t in cur)
                out.append(f"({lets}tmp)")
                cur = None
            else:
                raise TranslatorError(f"{self.what}: unsupported statement `{ast.unparse(st)}`")
        if cur is not None:
            raise TranslatorError(f"{self.what}: value computed but not appended")
        return out


def _scq_model():
    rel = "device/circuitqed.py"
    tree, src = _parse(rel)
    mdl = _cls(tree, "SCQubitsModel", rel)
    init = _body(_meth(mdl, "__init__"))
    defaults = None
    wq_cycle = None
    for st in init:
        if isinstance(st, ast.Assign) and _is_attr(st.targets[0], "self", "params") and isinstance(st.value, ast.Dict):
            defaults = {}
            for k, v in zip(st.value.keys, st.value.values):
                if k.value == "wq":
                    tmpl = ast.parse("np.array(((1, 2) * int(np.ceil(self.num_qubits / 2)))[: self.num_qubits])", mode="eval").body
                    try:
                        tup = v.args[0].value.left
                        vals = [const_fraction(e, src, "default wq") for e in tup.elts]
                        tmpl.args[0].value.left = tup
                        if _dump(v) != _dump(tmpl):
                            raise AttributeError
                    except (AttributeError, IndexError):
                        raise TranslatorError("SCQubitsModel: default wq is not a repeated tuple cut to num_qubits")
                    wq_cycle = vals
                else:
                    defaults[k.value] = const_fraction(v, src, "SCQubitsModel defaults")
    if defaults is None or wq_cycle is None or sorted(defaults) != ["alpha", "g", "omega_cr", "omega_single", "wr"]:
        raise TranslatorError("SCQubitsModel.__init__: default parameter dict not recognised")
    if not any(_same_stmt(st, "self.dims = dims if dims is not None else [3] * num_qubits") for st in init):
        raise TranslatorError("SCQubitsModel.__init__: dims default not recognised")
    cp = _body(_meth(mdl, "_compute_params"))
    pos = 0

    def expect(code):
        nonlocal pos
        if pos >= len(cp) or not _same_stmt(cp[pos], code):
            got = ast.unparse(cp[pos]) if pos < len(cp) else "<end>"
            raise TranslatorError(f"SCQubitsModel._compute_params: expected `{code}`, found `{got}`")
        pos += 1

    expect("num_qubits = self.num_qubits")
    expect('for name in ["alpha", "omega_single", "omega_cr"]:\n    self.params[name] = _to_array(self.params[name], num_qubits)')
    expect('self.params["wr"] = _to_array(self.params["wr"], num_qubits - 1)')
    expect('self.params["g"] = _to_array(self.params["g"], 2 * (num_qubits - 1))')
    for nm in ("g", "wq", "wr", "alpha"):
        expect(f'{nm} = self.params["{nm}"]')
    arrays = {"g": "P.g", "wq": "P.wq", "wr": "P.wr", "alpha": "P.alpha", "omega_cr": "P.omega_cr", "J": "Jl"}
    ienv = {"i": "i", "num_qubits": "N"}

    def loop(listname, bound_code, n_out, what, save):
        nonlocal pos
        expect(f"{listname} = []")
        if listname == "zx_coeff":
            expect('omega_cr = self.params["omega_cr"]')
        st = cp[pos]
        if not (isinstance(st, ast.For) and _same(st.target, "i") and _same(st.iter, f"range({bound_code})")):
            raise TranslatorError(f"SCQubitsModel._compute_params: loop for {listname} not recognised")
        terms = LoopTr(arrays, ienv, src, what).body(st.body, listname)
        if len(terms) != n_out:
            raise TranslatorError(f"SCQubitsModel._compute_params: {listname}: expected {n_out} append(s) per iteration")
        pos += 1
        if save is not None:
            expect(save)
        return terms

    wq_dr = loop("wq_dr", "num_qubits", 1, "wq_dressed", 'self.params["wq_dressed"] = wq_dr')
    wr_dr = loop("wr_dr", "num_qubits - 1", 1, "wr_dressed", 'self.params["wr_dressed"] = wr_dr')
    J = loop("J", "num_qubits - 1", 1, "J", 'self.params["J"] = J')
    zx = loop("zx_coeff", "num_qubits - 1", 2, "zx_coeff", None)
    st = cp[pos]
    if not (isinstance(st, ast.Assign) and _same(st.targets[0], 'self.params["zx_coeff"]')):
        raise TranslatorError("SCQubitsModel._compute_params: final zx_coeff assignment not found")
    zx_final = ArD({"np.asarray(zx_coeff)": "x"}, src, "zx_coeff scaling").tr(st.value)
    pos += 1
    if pos != len(cp):
        raise TranslatorError("SCQubitsModel._compute_params: trailing statements")
    # controls: structural comparison with the coefficients abstracted
    su = _meth(mdl, "_set_up_controls")
    want = '''
num_qubits = self.num_qubits
dims = self.dims
controls = {}
for m in range(num_qubits):
    destroy_op = destroy(dims[m])
    op = destroy_op + destroy_op.dag()
    controls["sx" + str(m)] = (C * op, [m])
for m in range(num_qubits):
    destroy_op = destroy(dims[m])
    op = destroy_op * (-1.0j) + destroy_op.dag() * 1.0j
    controls["sy" + str(m)] = (C * op, [m])
for m in range(num_qubits):
    destroy_op = destroy(dims[m])
    op = destroy_op.dag() * destroy_op
    controls["sz" + str(m)] = (C * op, [m])
for m in range(num_qubits - 1):
    d1 = dims[m]
    d2 = dims[m + 1]
    projector1 = basis(d1, 0) * basis(d1, 0).dag() + basis(d1, 1) * basis(d1, 1).dag()
    projector2 = basis(d2, 0) * basis(d2, 0).dag() + basis(d2, 1) * basis(d2, 1).dag()
    destroy_op1 = destroy(d1)
    z = projector1 * (-destroy_op1.dag() * destroy_op1 * 2 + qeye(d1)) / 2 * projector1
    destroy_op2 = destroy(d2)
    x = projector2 * (destroy_op2.dag() + destroy_op2) / 2 * projector2
    controls["zx" + str(m) + str(m + 1)] = (C * tensor([z, x]), [m, m + 1])
    controls["zx" + str(m + 1) + str(m)] = (C * tensor([x, z]), [m, m + 1])
return controls
'''
    coefs = []

    class Abs(ast.NodeTransformer):
        def visit_Tuple(self, n):
            # (coef * operator, targets)
            if len(n.elts) == 2 and isinstance(n.elts[0], ast.BinOp) and isinstance(n.elts[0].op, ast.Mult) \
                    and isinstance(n.elts[1], ast.List):
                coefs.append(n.elts[0].left)
                n.elts[0].left = ast.Name(id="C", ctx=ast.Load())
            return n

    have = ast.Module(body=_body(su), type_ignores=[])
    have = Abs().visit(have)
    if _dump(have) != _dump(ast.parse(want)):
        raise TranslatorError("SCQubitsModel._set_up_controls: statement sequence not recognised")
    if len(coefs) != 5:
        raise TranslatorError("SCQubitsModel._set_up_controls: expected five control definitions")
    ccoef = [ArD(PI_ENV, src, "control coefficient").tr(c) for c in coefs]
    # drift
    dr = _body(_meth(mdl, "_set_up_drift"))
    dwant = '''
for m in range(self.num_qubits):
    destroy_op = destroy(self.dims[m])
    coeff = 2 * np.pi * self.params["alpha"][m] / 2.0
    self._drift.append((coeff * destroy_op.dag() ** 2 * destroy_op ** 2, [m]))
'''
    if _dump(ast.Module(body=dr, type_ignores=[])) != _dump(ast.parse(dwant)):
        raise TranslatorError("SCQubitsModel._set_up_drift: not the anharmonicity term on the levels above the qubit")
    proc = _cls(tree, "SCQubits", rel)
    pinit = _body(_meth(proc, "__init__"))
    native = None
    for st in pinit:
        if isinstance(st, ast.Assign) and _is_attr(st.targets[0], "self", "native_gates") and isinstance(st.value, ast.List):
            native = [e.value for e in st.value.elts]
    if native is None or not any(_same_stmt(st, "self._default_compiler = SCQubitsCompiler") for st in pinit) \
            or not any(_same_stmt(st, 'self.pulse_mode = "continuous"') for st in pinit):
        raise TranslatorError("SCQubits.__init__: native gates / default compiler / pulse mode not recognised")
    return dict(defaults=defaults, wq_cycle=wq_cycle, wq_dr=wq_dr[0], wr_dr=wr_dr[0], J=J[0], zx=zx, zx_final=zx_final,
                ccoef=ccoef, native=native)


# ------------------------------------------------------------------------------------------
# rendering

def _lean_str_list(l):
    return "[" + ", ".join(f'"{x}"' for x in l) + "]"


def render_cq(ps, c, m):
    L = ['''import QipVerif.Model.DevArith
/-! GENERATED by py/translate/cqed.py from /repo/src/qutip_qip/compiler/{cavityqedcompiler,gatecompiler}.py and
device/cavityqed.py — do not edit.  No Mathlib.

Arithmetic formulas of the source are translated term by term into functions over `DArith α`
(Model/DevArith.lean); `pi` is a parameter. -/
set_option linter.unusedVariables false
namespace QipVerif.Gen.CQ
open QipVerif.Dev

/-- what a compiler method of `gate_compiler` does -/
inductive Rule
  /-- `_rotation_compiler(gate, op_label, param_label, args)` -/
  | rotation (opLabel paramLabel : String)
  /-- `_swap_compiler(gate, area = exchArea k, correction_angle = exchCorr k, args)` -/
  | exchange (k : Nat)
  /-- `self.global_phase += gate.arg_value`, no instruction -/
  | phase
  /-- `pass` -/
  | noop
  /-- `idle_compiler` -/
  | idle
deriving DecidableEq, Repr

/-- the two targets of a two-qubit gate: `q1, q2 = gate.targets` -/
inductive QRef | q1 | q2
deriving DecidableEq, Repr
''']
    L.append("/-- `CavityQEDCompiler(...).gate_compiler`: gate name → compiler method, classified -/")
    L.append("def gateCompiler : List (String × Rule) :=\n  [" + ",\n   ".join(f'("{g}", {r})' for g, r in c["rules"]) + "]\n")
    L.append("/-- the gates compiled by `_swap_compiler`, in the order of `Rule.exchange k` -/")
    L.append(f"def exchNames : List String := {_lean_str_list([g for g, _, _ in c['exch']])}\n")
    L.append("variable {α : Type} [DArith α]\n")
    L.append("/-- `_rotation_compiler`: `area=` argument of `generate_pulse_shape` (`theta` = `gate.arg_value`);\n"
             "`maximum = self.params[param_label][targets[0]]`, channel `op_label + str(targets[0])` -/")
    L.append(f"def rotArea (pi theta : α) : α :=\n  {c['rot_area']}\n")
    L.append("/-- `generate_pulse_shape`: returned `coeff` for the normalised window value `c0` -/")
    L.append(f"def pulseCoeff (c0 maximum area : α) : α :=\n  {ps['pulse_coeff']}\n")
    L.append("/-- `generate_pulse_shape`: returned `tlist` for the normalised window time `t0` -/")
    L.append(f"def pulseDur (t0 maximum area : α) : α :=\n  {ps['pulse_dur']}\n")
    L.append('/-- `_normalized_window("rectangular", …)` -/')
    L.append(f"def rectC0 : α := {frac_term(ps['rect'][0])}")
    L.append(f"def rectT0 : α := {frac_term(ps['rect'][1])}\n")
    L.append("/-- `area=` of the compiler methods that call `_swap_compiler` -/")
    L.append("def exchArea : Nat → α\n" + "\n".join(f"  | {k} => {frac_term(a)}" for k, (_, a, _) in enumerate(c["exch"]))
             + "\n  | _ => (DArith.ofFrac 0 1)\n")
    L.append("/-- `correction_angle=` of the compiler methods that call `_swap_compiler` -/")
    L.append("def exchCorr (pi : α) : Nat → α\n" + "\n".join(f"  | {k} => {co}" for k, (_, _, co) in enumerate(c["exch"]))
             + "\n  | _ => (DArith.ofFrac 0 1)\n")
    L.append("/-- `CavityQEDCompiler.__init__`: `self.wq`, `self.Delta` (element-wise) -/")
    L.append(f"def compWq (eps delta : α) : α :=\n  {c['wq']}")
    L.append(f"def compDelta (wq w0 : α) : α :=\n  {c['delta']}\n")
    L.append("/-- `_swap_compiler`: the channels held during the exchange, `(prefix, which target)` in the order of "
             "`pulse_info` -/")
    L.append("def swapHeld : List (String × QRef) :=\n  [" + ", ".join(f'("{p}", .{q})' for p, q, _ in c["held"]) + "]\n")
    L.append("/-- `_swap_compiler`: coefficient of the k-th held channel (`wq1 = self.wq[q1]`, `g1 = self.params[\"g\"][q1]`, …) -/")
    L.append("def swapHeldCoef (wq1 wq2 g1 g2 w0 : α) : Nat → α\n"
             + "\n".join(f"  | {k} => {co}" for k, (_, _, co) in enumerate(c["held"])) + "\n  | _ => (DArith.ofFrac 0 1)\n")
    L.append("/-- `_swap_compiler`: the effective coupling `J` (`D1 = self.Delta[q1]`, …) -/")
    L.append(f"def swapJ (g1 g2 D1 D2 : α) : α :=\n  {c['J']}\n")
    L.append("/-- `_swap_compiler` contains `if J < 0: area = 1 - area` (fixes/C18-1.patch) -/")
    L.append(f"def swapFlipsNegJ : Bool := {'true' if c['flips'] else 'false'}\n")
    L.append("/-- the `area=` handed to `generate_pulse_shape(\"rectangular\", None, maximum=J, area=…)` -/")
    if c["flips"]:
        L.append("def swapArea (J area : α) : α :=\n  if (DArith.lt J (DArith.ofFrac 0 1)) then (DArith.sub (DArith.ofFrac 1 1) area) else area\n")
    else:
        L.append("def swapArea (J area : α) : α := area\n")
    L.append("/-- `_swap_compiler`: the corrections compiled after the exchange, each with `arg_value=correction_angle`;\n"
             "afterwards `self.globalphase_compiler(Gate(\"GLOBALPHASE\", arg_value=correction_angle))` -/")
    L.append("def swapCorrections : List (String × QRef) :=\n  [" + ", ".join(f'("{n}", .{q})' for n, q in c["corr"]) + "]\n")
    L.append("/-- `GateCompiler.compile` sets `self.global_phase = 0.0` before the gate loop -/")
    L.append(f"def compileResetsPhase : Bool := {'true' if ps['resets'] else 'false'}\n")
    L.append("/-- `GateCompiler.compile` keeps only instructions with `ins.duration != 0` -/")
    L.append(f"def dropsZeroDuration : Bool := {'true' if ps['drops'] else 'false'}\n")
    L.append("/-- `DispersiveCavityQED.load_circuit`: `self.global_phase = compiler.global_phase` (the default compiler is "
             "built with `global_phase=0.0`) -/")
    L.append(f"def handsBackPhase : Bool := {'true' if m['hands'] else 'false'}\n")
    L.append("/-! ## `CavityQEDModel` / `DispersiveCavityQED` -/\n")
    L.append(f"def nativeGates : List String := {_lean_str_list(m['native'])}\n")
    for k in ("deltamax", "epsmax", "w0", "eps", "delta", "g"):
        f = m["defaults"][k]
        L.append(f"def default_{k} : Int × Nat := ({f.numerator}, {f.denominator})")
    L.append("")
    L.append("/-- `_compute_params`: `self.params[a] = self.params[b]` -/")
    L.append("def paramAlias : List (String × String) :=\n  [" + ", ".join(f'("{a}", "{b}")' for a, b in m["alias"]) + "]\n")
    L.append("/-- `_compute_params`: `wq`, `Delta` (element-wise) -/")
    L.append(f"def modelWq (eps delta : α) : α :=\n  {m['wq']}")
    L.append(f"def modelDelta (wq w0 : α) : α :=\n  {m['delta']}\n")
    for k, (msg, cond) in enumerate(m["warns"]):
        L.append(f"/-- `_compute_params` warns \"{msg}\" if this holds for some qubit -/")
        L.append(f"def warn{k} (g w0 wq : α) : Bool :=\n  {cond}")
        L.append(f'def warn{k}_msg : String := "{msg}"\n')
    for nm, ctl in zip(("SX", "SZ"), m["ctl"]):
        L.append(f"/-- `controls[\"{ctl['prefix']}\" + str(m)] = (<coefficient> * sigma{ctl['op']}(), [<factor>])`; factor 0 is the "
                 f"resonator -/")
        L.append(f'def ctl{nm}_prefix : String := "{ctl["prefix"]}"')
        L.append(f"def ctl{nm}_coef (pi : α) : α :=\n  {ctl['coef']}")
        L.append(f'def ctl{nm}_op : String := "{ctl["op"]}"')
        L.append(f"def ctl{nm}_factor (N n : Int) : Int := {ctl['factor']}\n")
    L.append("/-- `controls[\"g\" + str(n)] = (c0 * a.dag() * sm_n + c1 * a * sm_n.dag(), all factors)` with `sm_n` the lowering "
             "operator of qubit `n` (factor `n + 1`), `a` the annihilation operator of the resonator (factor 0) -/")
    L.append('def ctlG_prefix : String := "g"')
    L.append(f"def ctlG_coef0 (pi : α) : α :=\n  {m['gco'][0]}")
    L.append(f"def ctlG_coef1 (pi : α) : α :=\n  {m['gco'][1]}\n")
    L.append("/-- `eliminate_auxillary_modes` projects factor 0 (the resonator) onto its level 0 -/")
    L.append("def cavityFactor : Int := 0\ndef cavityLevel : Nat := 0\n")
    L.append(f"/-- `spline_kind = \"step_func\"`: piecewise constant pulses -/\ndef stepFunc : Bool := {'true' if m['step_func'] else 'false'}\n")
    L.append("end QipVerif.Gen.CQ\n")
    return "\n".join(L)


def render_scq(ps, c, m):
    L = ['''import QipVerif.Model.DevArith
/-! GENERATED by py/translate/cqed.py from /repo/src/qutip_qip/compiler/{circuitqedcompiler,gatecompiler}.py and
device/circuitqed.py — do not edit.  No Mathlib.

Arithmetic formulas of the source are translated term by term into functions over `DArith α`
(Model/DevArith.lean); `pi` is a parameter; index expressions are `Int` expressions. -/
set_option linter.unusedVariables false
namespace QipVerif.Gen.SCQ
open QipVerif.Dev

/-- what a compiler method of `gate_compiler` does -/
inductive Rule
  /-- `_rotation_compiler(gate, op_label, param_label, args)` -/
  | rotation (opLabel paramLabel : String)
  /-- `rzx_compiler` -/
  | rzx
  /-- `cnot_compiler` -/
  | cnot
  /-- `self.global_phase += gate.arg_value`, no instruction -/
  | phase
  /-- `pass` -/
  | noop
  /-- `idle_compiler` -/
  | idle
deriving DecidableEq, Repr

/-- `cnot_compiler`: `q1 = gate.controls[0]`, `q2 = gate.targets[0]` -/
inductive QRef | q1 | q2
deriving DecidableEq, Repr

/-- hardware parameters of `SCQubitsModel` before `_compute_params` derives the others -/
structure Raw (α : Type) where
  wq : List α
  wr : List α
  alpha : List α
  g : List α
  omega_single : List α
  omega_cr : List α
deriving Repr
''']
    L.append("/-- `SCQubitsCompiler(...).gate_compiler`: gate name → compiler method, classified -/")
    L.append("def gateCompiler : List (String × Rule) :=\n  [" + ",\n   ".join(f'("{g}", {r})' for g, r in c["rules"]) + "]\n")
    L.append(f'/-- default `args` -/\ndef defaultShape : String := "{c["shape"]}"\ndef defaultNumSamples : Nat := {c["nsamp"]}\n'
             f"def defaultDrag : Bool := {'true' if c['drag'] else 'false'}\n")
    L.append("variable {α : Type} [DArith α]\n")
    L.append("/-- `_rotation_compiler`: `area=` (`theta` = `gate.arg_value`); `maximum = self.params[param_label][targets[0]]` -/")
    L.append(f"def rotArea (pi theta : α) : α :=\n  {c['rot_area']}\n")
    L.append("/-- `_rotation_compiler`: the `maximum=` handed to `generate_pulse_shape` for the hardware strength `maximum` of the "
             "addressed qubit: lowered for small areas (fixes/C18-3.patch) -/")
    L.append(f"def rotFloor : Bool := {'true' if c['rot_floor'] else 'false'}")
    L.append(f"def rotMax (maximum area : α) : α :=\n  {c['rot_max']}\n")
    L.append("/-- `generate_pulse_shape`: returned `coeff` for the normalised window value `c0` -/")
    L.append(f"def pulseCoeff (c0 maximum area : α) : α :=\n  {ps['pulse_coeff']}\n")
    L.append("/-- `generate_pulse_shape`: returned `tlist` for the normalised window time `t0` -/")
    L.append(f"def pulseDur (t0 maximum area : α) : α :=\n  {ps['pulse_dur']}\n")
    L.append('/-- `_analytical_window["hann"]` and `_default_window_t_max["hann"]` -/')
    L.append(f"def window (pi u : α) : α :=\n  {ps['hann']}")
    L.append(f"def windowTmax : α := {frac_term(ps['hann_tmax'])}\n")
    L.append("/-- `_drag_pulse`: `dt_coeff` from `grad = np.gradient(coeff, tlist[1] - tlist[0])`, the Y, Z quadratures and the "
             "corrected main quadrature (`c` = a sample of `coeff`, `alpha = self.params[\"alpha\"][target]`) -/")
    L.append(f"def dragDt (pi grad : α) : α :=\n  {c['drag_dt']}")
    L.append(f"def dragY (dt alpha : α) : α :=\n  {c['drag_y']}")
    L.append(f"def dragZ (c alpha : α) : α :=\n  {c['drag_z']}")
    L.append(f"def dragX (c alpha : α) : α :=\n  {c['drag_x']}\n")
    L.append("/-- `rzx_compiler`: index into `params[\"zx_coeff\"]`, area, rescale factor (applied to `tlist` and to `coeff`) -/")
    L.append(f"def rzxIdx (q1 q2 : Int) : Int := {c['rzx_idx']}")
    L.append(f"def rzxArea (pi theta : α) : α :=\n  {c['rzx_area']}")
    L.append(f"/-- the area carries the sign of the angle (fixes/C18-2.patch) -/\ndef rzxSigned : Bool := {'true' if c['signed'] else 'false'}")
    L.append(f"def rzxRescale (pi theta : α) : α :=\n  {c['rzx_rescale']}\n")
    L.append("/-- `cnot_compiler`: the gates compiled in order: name, targets, angle; `viaMap`: through `self.gate_compiler[name]` "
             "(otherwise `self.rzx_compiler`) -/")
    L.append("def cnotSeq (pi : α) : List (String × List QRef × α × Bool) :=\n  [" + ",\n   ".join(
        f'("{n}", [{", ".join("." + r for r in refs)}], {ang}, {"true" if via == "map" else "false"})'
        for n, refs, ang, via in c["seq"]) + "]\n")
    L.append("/-- `GateCompiler.compile` keeps only instructions with `ins.duration != 0` -/")
    L.append(f"def dropsZeroDuration : Bool := {'true' if ps['drops'] else 'false'}\n")
    L.append("/-! ## `SCQubitsModel` / `SCQubits` -/\n")
    L.append(f"def nativeGates : List String := {_lean_str_list(m['native'])}\n")
    L.append("/-- default `wq`: the tuple repeated and cut to `num_qubits` -/")
    L.append("def default_wq_cycle : List (Int × Nat) := [" + ", ".join(f"({f.numerator}, {f.denominator})" for f in m["wq_cycle"]) + "]")
    for k in ("wr", "alpha", "g", "omega_single", "omega_cr"):
        f = m["defaults"][k]
        L.append(f"def default_{k} : Int × Nat := ({f.numerator}, {f.denominator})")
    L.append("")
    L.append("/-- `_compute_params`, loop bodies (`i` the loop variable, `N = num_qubits`) -/")
    L.append(f"def wqDressedAt (P : Raw α) (N i : Int) : α :=\n  {m['wq_dr']}")
    L.append(f"def wrDressedAt (P : Raw α) (N i : Int) : α :=\n  {m['wr_dr']}")
    L.append(f"def JAt (P : Raw α) (N i : Int) : α :=\n  {m['J']}")
    L.append(f"def zxAt0 (P : Raw α) (Jl : List α) (N i : Int) : α :=\n  {m['zx'][0]}")
    L.append(f"def zxAt1 (P : Raw α) (Jl : List α) (N i : Int) : α :=\n  {m['zx'][1]}")
    L.append(f"/-- `self.params[\"zx_coeff\"] = np.asarray(zx_coeff) * 2` (element-wise) -/\ndef zxFinal (x : α) : α :=\n  {m['zx_final']}\n")
    names = ["SX", "SY", "SZ", "ZXf", "ZXb"]
    docs = ['`controls["sx" + str(m)] = (c * (a + a.dag()), [m])`', '`controls["sy" + str(m)] = (c * (-i a + i a.dag()), [m])`',
            '`controls["sz" + str(m)] = (c * a.dag() a, [m])`',
            '`controls["zx" + str(m) + str(m + 1)] = (c * tensor([z, x]), [m, m + 1])`, `z = P (1 - 2 a.dag() a) / 2 P`, '
            '`x = P (a.dag() + a) / 2 P`, `P` the projector on the levels 0, 1',
            '`controls["zx" + str(m + 1) + str(m)] = (c * tensor([x, z]), [m, m + 1])`']
    for nm, doc, co in zip(names, docs, m["ccoef"]):
        L.append(f"/-- {doc} -/\ndef ctl{nm}_coef (pi : α) : α :=\n  {co}")
    L.append("")
    L.append("end QipVerif.Gen.SCQ\n")
    return "\n".join(L)


def render():
    ps = _pulse_shape()
    cq_c, cq_m = _cq_compiler(ps), _cq_model()
    sc_c, sc_m = _scq_compiler(ps), _scq_model()
    info = dict(cq_rules=dict(cq_c["rules"]), cq_exch=[(g, a) for g, a, _ in cq_c["exch"]], flips=cq_c["flips"],
                signed=sc_c["signed"], floor=sc_c["rot_floor"], drops=ps["drops"], resets=ps["resets"], hands=cq_m["hands"],
                cq_defaults=cq_m["defaults"], scq_defaults=sc_m["defaults"], wq_cycle=sc_m["wq_cycle"],
                cq_native=cq_m["native"], scq_native=sc_m["native"], scq_rules=dict(sc_c["rules"]),
                nsamp=sc_c["nsamp"], drag=sc_c["drag"], seq=[(n, refs, via) for n, refs, _, via in sc_c["seq"]],
                held=[(p, q) for p, q, _ in cq_c["held"]])
    return render_cq(ps, cq_c, cq_m), render_scq(ps, sc_c, sc_m), info


def regenerate():
    cq, scq, info = render()
    for path, text in ((OUT_CQ, cq), (OUT_SCQ, scq)):
        old = open(path).read() if os.path.exists(path) else None
        if old != text:
            with open(path, "w") as f:
                f.write(text)
    return info
