"""Regenerates lean/QipVerif/Gen/DecompTables.lean (+ one module per rule with its soundness
theorem) from /repo's circuit/_decompose.py by behavioural extraction: every `_gate_<NAME>` /
`_basis_<NAME>` function of the CURRENT working tree is called on probe gates with pairwise
distinct qubit labels and two sentinel angles; each emitted gate is recovered as a template
(name, which input qubit, angle = a*theta + b*pi/8 with small rationals).  The extraction is
validated on every run by instantiating the templates on random placements/angles and
comparing with what the function really returns."""
import importlib, math, os, random, re
from fractions import Fraction

from vlib.core import TranslatorError
from vlib.paths import LEAN

GNAMES = ("RX RY RZ PHASEGATE CRX CRY CRZ CPHASE X Y Z S T SNOT SQRTNOT IDLE CNOT CSIGN CZ CY CS CT SWAP ISWAP "
          "SQRTSWAP SQRTISWAP BERKELEY FREDKIN TOFFOLI GLOBALPHASE SWAPalpha R QASMU MS RZX").split()
# (number of controls, number of targets) of a probe gate
SHAPE = {n: (0, 1) for n in "RX RY RZ PHASEGATE X Y Z S T SNOT SQRTNOT IDLE R QASMU".split()}
SHAPE.update({n: (1, 1) for n in "CRX CRY CRZ CPHASE CNOT CSIGN CZ CY CS CT".split()})
SHAPE.update({n: (0, 2) for n in "SWAP ISWAP SQRTSWAP SQRTISWAP BERKELEY SWAPalpha MS RZX".split()})
SHAPE.update({"FREDKIN": (1, 2), "TOFFOLI": (2, 1), "GLOBALPHASE": (0, 0)})
PARAMETRIC = set("RX RY RZ PHASEGATE CRX CRY CRZ CPHASE GLOBALPHASE SWAPalpha".split())
# other spellings GATE_CLASS_MAP accepts (not names of the model alphabet GNAMES): shapes for the harnesses
ALIAS_SHAPE = {"H": (0, 1), "CX": (1, 1), "iSWAP": (0, 2), "SWAPALPHA": (0, 2)}
BASES = ["CSIGN", "ISWAP", "SQRTSWAP", "SQRTISWAP"]
T1, T2 = 0.7310585786300049, 1.9151305816892773
PROBE_LABEL = "probe-label"
LABEL = re.compile(r"^(-?)(\d*)\\pi(?:/(\d+))?$")          # k\pi/m as the source writes it
# every attribute of a gate object a rule may set, and the value a rule must leave it at
PLAIN_FIELDS = {"control_value": None, "classical_controls": None, "classical_control_value": None, "style": None,
                "latex_str": "U"}
KNOWN_ATTRS = {"name", "targets", "controls", "arg_value", "arg_label"} | set(PLAIN_FIELDS)


def _mods():
    dec = importlib.import_module("qutip_qip.circuit._decompose")
    from qutip_qip.operations import Gate
    from qutip_qip.circuit import QubitCircuit
    return dec, Gate, QubitCircuit


def probe(Gate, name, theta, tq=None, cq=None, label=PROBE_LABEL):
    nc, nt = SHAPE[name]
    tq = tq if tq is not None else [11 + i for i in range(nt)]
    cq = cq if cq is not None else [21 + i for i in range(nc)]
    kw = {}
    if name in PARAMETRIC:
        kw["arg_value"] = theta
    # the probe carries a value in EVERY field, so that a rule copying any of them shows
    return Gate(name, targets=(tq if nt else None), controls=(cq if nc else None), arg_label=label,
                control_value=(2 ** nc - 1 if nc else None), classical_controls=[3, 1], classical_control_value=2,
                style={"probe": True}, **kw)


def parse_label(lab):
    """`k\\pi/m` -> (k, m) | None"""
    m = LABEL.match(lab) if isinstance(lab, str) else None
    if not m:
        return None
    k = (-1 if m.group(1) else 1) * (int(m.group(2)) if m.group(2) else 1)
    return k, (int(m.group(3)) if m.group(3) else 1)


def _label_template(g, Gate, where):
    """label template of an emitted gate; every other field of the object must be the plain default"""
    if type(g) is not Gate:
        raise TranslatorError(f"{where}: emits an object of class {type(g).__name__}, not Gate")
    extra = set(vars(g)) - KNOWN_ATTRS
    if extra:
        raise TranslatorError(f"{where}: emitted {g.name} has unknown attributes {sorted(extra)}")
    for k, v in PLAIN_FIELDS.items():
        if getattr(g, k, v) != v:
            raise TranslatorError(f"{where}: emitted {g.name} has {k}={getattr(g, k)!r}")
    lab = g.arg_label
    if lab is None:
        return ("none",)
    if lab == PROBE_LABEL:
        return ("inp",)
    f = parse_label(lab)
    if f is None:
        raise TranslatorError(f"{where}: emitted {g.name} has an unrecognised arg_label {lab!r}")
    return ("frac",) + f


def _aslist(x):
    if x is None:
        return []
    if isinstance(x, (list, tuple)):
        return list(x)
    return [x]


def _sel(q, tq, cq):
    if q in tq:
        return ("t", tq.index(q))
    if q in cq:
        return ("c", cq.index(q))
    raise TranslatorError(f"rule emits qubit {q} that is not a qubit of the input gate")


def _angle(a1, a2):
    """arg = a*theta + b*pi/8 from its values at the two sentinels."""
    if a1 is None and a2 is None:
        return (0, 1, 0)
    a = (a2 - a1) / (T2 - T1)
    fa = Fraction(a).limit_denominator(16)
    b8 = (a1 - float(fa) * T1) / (math.pi / 8)
    fb = round(b8)
    if abs(float(fa) - a) > 1e-9 or abs(fb - b8) > 1e-9:
        raise TranslatorError(f"angle is not a*theta + b*pi/8 with small rationals: {a1}, {a2}")
    return (fa.numerator, fa.denominator, fb)


def _templates(out1, out2, tq, cq, Gate=None, where="rule"):
    if len(out1) != len(out2):
        raise TranslatorError("rule output depends on the angle")
    res = []
    labs = []
    for g1, g2 in zip(out1, out2):
        l1, l2 = _label_template(g1, Gate, where), _label_template(g2, Gate, where)
        if l1 != l2:
            raise TranslatorError(f"{where}: label depends on the angle")
        labs.append(l1)
        if g1.name != g2.name or _aslist(g1.targets) != _aslist(g2.targets) or _aslist(g1.controls) != _aslist(g2.controls):
            raise TranslatorError("rule output depends on the angle")
        if g1.name not in GNAMES:
            raise TranslatorError(f"rule emits unknown gate {g1.name}")
        res.append((g1.name, [_sel(q, tq, cq) for q in _aslist(g1.targets)],
                    [_sel(q, tq, cq) for q in _aslist(g1.controls)], _angle(g1.arg_value, g2.arg_value)))
    return res, labs


def extract():
    dec, Gate, QubitCircuit = _mods()
    gate_rules = {}
    gate_labs, basis_labs = {}, {}
    for name in GNAMES:
        f = getattr(dec, "_gate_" + name, None)
        if f is None:
            gate_rules[name] = ("missing",)
            continue
        outs = []
        kind = None
        for th in (T1, T2):
            g = probe(Gate, name, th)
            out = []
            try:
                f(g, out)
            except NotImplementedError:
                kind = "notImplemented"
                break
            if len(out) == 1 and out[0] is g:
                kind = "ignored"
                break
            outs.append(out)
        if kind:
            gate_rules[name] = (kind,)
            continue
        nc, nt = SHAPE[name]
        tpl, labs = _templates(outs[0], outs[1], [11 + i for i in range(nt)], [21 + i for i in range(nc)], Gate,
                               "_gate_" + name)
        gate_rules[name] = ("templ", tpl)
        gate_labs[name] = labs
    basis_rules = {}
    for y in BASES:
        f = getattr(dec, "_basis_" + y, None)
        if f is None:
            raise TranslatorError(f"_basis_{y} not found")
        for name in GNAMES:
            outs = []
            same = False
            for th in (T1, T2):
                g = probe(Gate, name, th)
                qc = QubitCircuit(40)
                f(qc, [g])
                if len(qc.gates) == 1 and qc.gates[0] is g:
                    same = True
                    break
                outs.append(list(qc.gates))
            if same:
                continue
            nc, nt = SHAPE[name]
            tpl, labs = _templates(outs[0], outs[1], [11 + i for i in range(nt)], [21 + i for i in range(nc)], Gate,
                                   f"_basis_{y}[{name}]")
            basis_rules[(y, name)] = tpl
            basis_labs[(y, name)] = labs
    return gate_rules, basis_rules, gate_labs, basis_labs


def validate(gate_rules, basis_rules, rng, gate_labs=None, basis_labs=None):
    """Instantiate the extracted templates on random placements and angles and compare with the real functions."""
    dec, Gate, QubitCircuit = _mods()

    def labels_ok(labs, g, out, where):
        if labs is None:
            return True
        return len(labs) == len(out) and all(_label_template(o, Gate, where) == l for o, l in zip(out, labs))

    def inst(tpl, g):
        res = []
        for (n, ts, cs, (cn, cd, p8)) in tpl:
            pick = lambda s: (g.targets if s[0] == "t" else g.controls)[s[1]]
            arg = (cn / cd) * (g.arg_value or 0.0) + p8 * math.pi / 8 if (cn or p8 or n in PARAMETRIC) else None
            res.append((n, [pick(s) for s in ts], [pick(s) for s in cs], arg))
        return res

    def canon(gs):
        return [(g.name, _aslist(g.targets), _aslist(g.controls), g.arg_value) for g in gs]

    def close(a, b):
        if len(a) != len(b):
            return False
        for x, y in zip(a, b):
            if x[:3] != y[:3]:
                return False
            if (x[3] is None) != (y[3] is None) and not (x[3] in (None, 0.0) and y[3] in (None, 0.0)):
                return False
            if x[3] is not None and y[3] is not None and abs(x[3] - y[3]) > 1e-12:
                return False
        return True

    for _ in range(6):
        for name, rule in gate_rules.items():
            if rule[0] != "templ":
                continue
            nc, nt = SHAPE[name]
            qs = rng.sample(range(30), nc + nt)
            g = probe(Gate, name, rng.uniform(-7, 7), qs[:nt], qs[nt:])
            out = []
            getattr(dec, "_gate_" + name)(g, out)
            if not close(inst(rule[1], g), canon(out)) or \
                    not labels_ok((gate_labs or {}).get(name), g, out, "_gate_" + name):
                raise TranslatorError(f"extracted template of _gate_{name} does not reproduce the function")
        for (y, name), tpl in basis_rules.items():
            nc, nt = SHAPE[name]
            qs = rng.sample(range(30), nc + nt)
            g = probe(Gate, name, rng.uniform(-7, 7), qs[:nt], qs[nt:])
            qc = QubitCircuit(40)
            getattr(dec, "_basis_" + y)(qc, [g])
            if not close(inst(tpl, g), canon(qc.gates)) or \
                    not labels_ok((basis_labs or {}).get((y, name)), g, qc.gates, f"_basis_{y}[{name}]"):
                raise TranslatorError(f"extracted template of _basis_{y}[{name}] does not reproduce the function")


# ---- Lean rendering ----------------------------------------------------------------------

def _lsel(s):
    return f".{s[0]} {s[1]}"


def _ltg(t):
    n, ts, cs, (cn, cd, p8) = t
    return (f"⟨.{n}, [{', '.join(_lsel(s) for s in ts)}], [{', '.join(_lsel(s) for s in cs)}], "
            f"⟨{cn}, {cd}, {p8}⟩⟩")


def _lbody(tpl):
    return "[" + ",\n      ".join(_ltg(t) for t in tpl) + "]"


def canonical_gate(name):
    """Lean term of the canonical probe gate on qubits 0..m-1 (controls first) with fixed angle."""
    nc, nt = SHAPE[name]
    cs = list(range(nc))
    ts = list(range(nc, nc + nt))
    return f"⟨.{name}, {ts}, {cs}, {{}}⟩"


def render(gate_rules, basis_rules):
    L = []
    L.append("import QipVerif.Model.Decompose")
    L.append("/-! GENERATED by py/translate/decomp.py from /repo/src/qutip_qip/circuit/_decompose.py — do not edit. -/")
    L.append("namespace QipVerif.Gen\nopen QipVerif QipVerif.Decomp\n")
    for name, rule in gate_rules.items():
        if rule[0] == "templ":
            L.append(f"def gate_{name} : List TGate :=\n  {_lbody(rule[1])}\n")
    for (y, name), tpl in basis_rules.items():
        L.append(f"def basis_{y}_{name} : List TGate :=\n  {_lbody(tpl)}\n")
    L.append("def gateRule : GName → Rule")
    for name, rule in gate_rules.items():
        if rule[0] == "templ":
            L.append(f"  | .{name} => .templ gate_{name}")
        else:
            L.append(f"  | .{name} => .{rule[0]}")
    L.append("  | .other _ => .missing\n")
    L.append("def basisRule : GName → GName → Option (List TGate)")
    for (y, name), tpl in basis_rules.items():
        L.append(f"  | .{y}, .{name} => some basis_{y}_{name}")
    L.append("  | _, _ => none\n")
    L.append("def tables : Tables := ⟨gateRule, basisRule⟩\n")
    L.append("end QipVerif.Gen")
    return "\n".join(L) + "\n"


def _llab(l):
    if l[0] == "frac":
        k = f"({l[1]})" if l[1] < 0 else str(l[1])
        return f".frac {k} {l[2]}"
    return "." + l[0]


def render_labels(gate_rules, basis_rules, gate_labs, basis_labs):
    L = ["import QipVerif.Model.DecomposeF",
         "/-! GENERATED by py/translate/decomp.py from /repo/src/qutip_qip/circuit/_decompose.py — do not edit.",
         "`arg_label` of every gate a rule emits, position by position next to the bodies of `Gen/DecompTables.lean`; every",
         "other field of the emitted objects (class, control_value, classical condition, style, latex_str) was checked to be",
         "the plain default by the extraction. -/",
         "namespace QipVerif.Gen\nopen QipVerif QipVerif.Decomp\n",
         "def gateLab : GName → List TLab"]
    for name, rule in gate_rules.items():
        if rule[0] == "templ":
            if len(gate_labs[name]) != len(rule[1]):
                raise TranslatorError(f"_gate_{name}: {len(gate_labs[name])} labels for {len(rule[1])} gates")
            L.append(f"  | .{name} => [{', '.join(_llab(l) for l in gate_labs[name])}]")
    L.append("  | _ => []\n")
    L.append("def basisLab : GName → GName → List TLab")
    for (y, name), tpl in basis_rules.items():
        if len(basis_labs[(y, name)]) != len(tpl):
            raise TranslatorError(f"_basis_{y}[{name}]: label count")
        L.append(f"  | .{y}, .{name} => [{', '.join(_llab(l) for l in basis_labs[(y, name)])}]")
    L.append("  | _, _ => []\n")
    L.append("def labels : LabTables := ⟨gateLab, basisLab⟩\n")
    L.append("end QipVerif.Gen")
    return "\n".join(L) + "\n"


def write_if_changed(path, content):
    if os.path.exists(path) and open(path).read() == content:
        return False
    os.makedirs(os.path.dirname(path), exist_ok=True)
    with open(path, "w") as f:
        f.write(content)
    return True


def rule_modules(gate_rules, basis_rules):
    """One module per fixed-angle rule: its exact soundness theorem, discharged by the kernel."""
    mods = {}
    for name, rule in gate_rules.items():
        if rule[0] == "templ" and name not in PARAMETRIC:
            mods[f"Rule_gate_{name}"] = (f"gate_{name}", name)
    for (y, name), tpl in basis_rules.items():
        if name not in PARAMETRIC:
            mods[f"Rule_basis_{y}_{name}"] = (f"basis_{y}_{name}", name)
    out = {}
    for mod, (defn, name) in mods.items():
        nc, nt = SHAPE[name]
        out[mod] = ("import QipVerif.Gen.DecompTables\n"
                    "/-! GENERATED by py/translate/decomp.py — exact soundness of one decomposition rule. -/\n"
                    "namespace QipVerif.Gen\nopen QipVerif QipVerif.Decomp\n\n"
                    f"theorem sound_{defn} : ruleSoundE {nc + nt} {defn} {canonical_gate(name)} = true := by\n"
                    "  decide +kernel\n\nend QipVerif.Gen\n")
    return out


# ---- alias names: `_gate_<X>` for a name X outside the model alphabet ------------------------------------

NOT_RULES = {"IGNORED", "NOTIMPLEMENTED", "basis_2q"}
B2_NAMES = {"CNOT", "CSIGN", "ISWAP", "SQRTSWAP", "SQRTISWAP"}


def extract_aliases(gate_rules, gate_labs):
    """Every `_gate_<X>` of _decompose.py whose X is not a name of the model alphabet must be an ALIAS: GATE_CLASS_MAP
    maps X to the class of a name Y of the alphabet, Y is rewritten by a template rule and is none of the names
    resolve_gates compares literally (two-qubit basis gates, SWAP, the Paulis) — then resolve_gates treats a gate named X
    exactly like one named Y iff the rule of X IS the rule of Y; that is extracted (probe gates named X) and compared,
    labels included.  -> {X: Y}.  Anything else: TranslatorError."""
    dec, Gate, QubitCircuit = _mods()
    from qutip_qip.operations import GATE_CLASS_MAP
    out = {}
    for fn in sorted(n for n in dir(dec) if n.startswith("_gate_")):
        x = fn[len("_gate_"):]
        if x in GNAMES or x in NOT_RULES or not callable(getattr(dec, fn)):
            continue
        if x not in GATE_CLASS_MAP:
            raise TranslatorError(f"{fn}: a rule for the name {x!r}, which is neither in the model alphabet nor a gate class")
        ys = [y for y in GNAMES if y in GATE_CLASS_MAP and GATE_CLASS_MAP[y] is GATE_CLASS_MAP[x]]
        if len(ys) != 1:
            raise TranslatorError(f"{fn}: the class of {x!r} is the class of {ys} in the model alphabet (need exactly one)")
        y = ys[0]
        if gate_rules[y][0] != "templ" or y in B2_NAMES or y in ("SWAP", "X", "Y", "Z") or y in PARAMETRIC:
            raise TranslatorError(f"{fn}: alias {x!r} of {y!r}: the model covers aliases of fixed-angle gates with a "
                                  "template rule that resolve_gates does not compare by name")
        nc, nt = SHAPE[y]
        outs = []
        for th in (T1, T2):
            g = Gate(x, targets=[11 + i for i in range(nt)] if nt else None, controls=[21 + i for i in range(nc)] if nc else None,
                     arg_label=PROBE_LABEL, control_value=(2 ** nc - 1 if nc else None), classical_controls=[3, 1],
                     classical_control_value=2, style={"probe": True})
            o = []
            getattr(dec, fn)(g, o)
            outs.append(o)
        tpl, labs = _templates(outs[0], outs[1], [11 + i for i in range(nt)], [21 + i for i in range(nc)], Gate, fn)
        if tpl != gate_rules[y][1] or labs != gate_labs[y]:
            raise TranslatorError(f"{fn}: the rule of the alias {x!r} is not the rule of {y!r}")
        out[x] = y
    return out


def render_aliases(aliases):
    rows = ", ".join(f'("{x}", .{y})' for x, y in sorted(aliases.items()))
    return ("import QipVerif.Model.Circuit\n"
            "/-! GENERATED by py/translate/decomp.py from /repo/src/qutip_qip/circuit/_decompose.py and operations (GATE_CLASS_MAP)\n"
            "— do not edit.  Alias names with a decomposition rule: `_gate_<alias>` IS the rule of the canonical name (extracted\n"
            "with probe gates carrying the alias name and compared, labels included) and GATE_CLASS_MAP maps both names to one class. -/\n"
            "namespace QipVerif.Gen\nopen QipVerif\n\n"
            f"def ruleAlias : List (String × GName) := [{rows}]\n\n"
            "end QipVerif.Gen\n")


def string_basis_exact():
    """fixes/C03-3: does resolve_gates read a basis given as a string as ONE gate name?  (the code as found tests
    `gate.name in basis` on the string, i.e. for substrings: S passes in "CSIGN", a gate named NOT in "CNOT")"""
    from qutip_qip.circuit import QubitCircuit
    verdicts = []
    for name, basis in (("S", "CSIGN"), ("T", "CNOT"), ("S", "SQRTISWAP")):
        qc = QubitCircuit(1)
        qc.add_gate(name, targets=0)
        try:
            qc.resolve_gates(basis)
            verdicts.append(False)
        except NotImplementedError:
            verdicts.append(True)
        except Exception as e:
            raise TranslatorError(f"variant probe string basis {basis!r}: {type(e).__name__}: {e}")
    if len(set(verdicts)) != 1:
        raise TranslatorError("resolve_gates treats the string bases differently (substring test in some, exact name in others)")
    return verdicts[0]


def render_variant(exact):
    return ("/-! GENERATED by py/translate/decomp.py from /repo/src/qutip_qip/circuit/circuit.py — do not edit.\n"
            "Which reading of a basis given as a STRING `resolve_gates` has in this tree (probed on the code):\n"
            "`false` = `gate.name in basis` on the string, a substring test (the code as found);\n"
            "`true`  = the string is one gate name (fixes/C03-3).  Used by the model of\n"
            "`_decompose_multi_qubit_gates` (C13), which calls `resolve_gates(\"CNOT\")`. -/\n"
            "namespace QipVerif.Gen\n\n"
            f"def strExact : Bool := {'true' if exact else 'false'}\n\n"
            "end QipVerif.Gen\n")


def regenerate_variant():
    """Gen/DecompVariant.lean; a source that is not recognised is held to the repaired reading"""
    gdir = os.path.join(LEAN, "QipVerif", "Gen")
    try:
        exact = string_basis_exact()
    except TranslatorError:
        write_if_changed(os.path.join(gdir, "DecompVariant.lean"), render_variant(True))
        raise
    write_if_changed(os.path.join(gdir, "DecompVariant.lean"), render_variant(exact))
    return exact


def regenerate(seed=0):
    verr = None
    try:
        regenerate_variant()
    except TranslatorError as e:
        verr = e
    gate_rules, basis_rules, gate_labs, basis_labs = extract()
    validate(gate_rules, basis_rules, random.Random(seed), gate_labs, basis_labs)
    gdir = os.path.join(LEAN, "QipVerif", "Gen")
    changed = write_if_changed(os.path.join(gdir, "DecompTables.lean"), render(gate_rules, basis_rules))
    changed |= write_if_changed(os.path.join(gdir, "DecompLabels.lean"),
                                render_labels(gate_rules, basis_rules, gate_labs, basis_labs))
    try:
        aliases = extract_aliases(gate_rules, gate_labs)
        changed |= write_if_changed(os.path.join(gdir, "DecompAlias.lean"), render_aliases(aliases))
    except TranslatorError as e:
        verr = verr or e
    mods = rule_modules(gate_rules, basis_rules)
    for mod, src in mods.items():
        changed |= write_if_changed(os.path.join(gdir, mod + ".lean"), src)
    # stale rule modules of rules that no longer exist
    for f in os.listdir(gdir):
        if f.startswith("Rule_") and f[:-5] not in mods:
            os.remove(os.path.join(gdir, f))
    if verr is not None:
        raise verr
    return gate_rules, basis_rules, sorted(mods), changed
